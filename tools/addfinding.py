#!/usr/bin/env python3
"""tools/addfinding.py <Fid> <Cxx> <fixed|known> <witness> <what...>  (commit = current /repo HEAD for fixed)"""
import json, subprocess, sys
fid, prop, status, witness = sys.argv[1:5]
what = ' '.join(sys.argv[5:])
p = '/verif/known_findings.json'
d = json.load(open(p))
d['findings'] = [f for f in d['findings'] if not (f['id'] == fid and f['property'] == prop)]
e = dict(id=fid, property=prop, status=status, witness=witness, what=what)
if status == 'fixed':
    e['commit'] = subprocess.check_output(['git', '-C', '/repo', 'log', '-1', '--format=%h']).decode().strip()
    e['line'] = f'fixed: property={prop} {e["commit"]} {what}'
else:
    e['line'] = f'known: property={prop} {what}'
d['findings'].append(e)
json.dump(d, open(p, 'w'), indent=1)
print(e['line'])
