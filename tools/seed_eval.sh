#!/bin/bash
# tools/seed_eval.sh <seed-id> <patch.diff> <demo.py> <Cxx> [tier]
# Confirms a seeded change independently (suite passes with it, demo fails with it and passes without it, in a scratch
# worktree), then applies it to /repo, runs the property's check, and undoes it. Prints a one-line verdict.
ID=$1; PATCH=$(readlink -f $2); DEMO=$(readlink -f $3); P=$4; TIER=${5:-quick}
WT=$(mktemp -d /tmp/seedwt.XXXXXX); rmdir $WT
git -C /repo worktree add -q --detach $WT HEAD || exit 3
res() { echo "$ID $P: $1"; }
cd $WT
PYTHONPATH=$WT/src /venv/bin/python $DEMO > $WT/demo_clean.txt 2>&1; d0=$?
if ! git apply $PATCH 2>$WT/apply.err; then res "PATCH DOES NOT APPLY: $(head -1 $WT/apply.err)"; cd /; git -C /repo worktree remove --force $WT; exit 3; fi
PYTHONPATH=$WT/src /venv/bin/python $DEMO > $WT/demo_mut.txt 2>&1; d1=$?
if [ "$SKIP_SUITE" = "1" ]; then suite="skipped"; else
  suite=$(PYTHONPATH=$WT/src /venv/bin/python -m pytest -q -p no:cacheprovider --timeout=900 2>&1 | tail -1)
fi
cd ${VERIF_DIR:-/verif}
if [ "$SEED_SCRATCH" = "1" ]; then   # run the check against the scratch worktree (when /repo must not be touched, e.g. during a long run)
  out=$(mktemp /tmp/seedout.XXXXXX)
  VERIF_REPO=$WT VERIF_EVIDENCE_DIR=/tmp/seed_ev ./check $P $TIER > $out 2>&1; rc=$?
fi
git -C /repo worktree remove --force $WT
case "$suite" in *"31 passed"*|skipped) ;; *) res "REJECTED (suite with change: $suite)"; exit 4;; esac
if [ $d0 != 0 ] || [ $d1 = 0 ]; then res "REJECTED (demo clean rc=$d0, with change rc=$d1)"; exit 4; fi
if [ "$SEED_SCRATCH" != "1" ]; then
# run the check against /repo with the change applied, then undo
git -C /repo apply $PATCH || { res "cannot apply to /repo"; exit 3; }
out=$(mktemp /tmp/seedout.XXXXXX)
VERIF_EVIDENCE_DIR=/tmp/seed_ev ./check $P $TIER > $out 2>&1; rc=$?
git -C /repo checkout -- .
if [ -n "$(git -C /repo status --porcelain)" ]; then res "WARNING: /repo not clean after undo"; fi
fi
detail=$(grep -m1 'violation detail' $out | cut -c1-220)
if [ $rc = 1 ]; then res "CAUGHT ($TIER) suite=[$suite] :: $detail"; elif [ $rc = 0 ]; then res "MISSED ($TIER) suite=[$suite]"; else res "CHECK ERROR rc=$rc: $(tail -3 $out | tr '\n' ' ' | cut -c1-300)"; fi
rm -f $out; rm -rf replays/$P
exit 0
