#!/usr/bin/env python3
"""tools/mut_survivors.py <file.py>: surviving mutants of mutation/<file>.jsonl grouped by enclosing function"""
import ast, json, sys
f = sys.argv[1]
import subprocess
src = subprocess.check_output(['git', '-C', '/repo', 'show', f'9619ea0:src/kyupy/{f}']).decode()      # the tree the mutants were made from
tree = ast.parse(src)
spans = []
for n in ast.walk(tree):
    if isinstance(n, (ast.FunctionDef, ast.ClassDef)):
        spans.append((n.lineno, n.end_lineno, n.name))
def where(line):
    best = None
    for a, b, name in spans:
        if a <= line <= b and (best is None or a >= best[0]):
            best = (a, b, name)
    return best[2] if best else '<module>'
rs = [json.loads(l) for l in open(f'/verif/mutation/{f}.jsonl')]
by = {}
for r in rs:
    if r['verdict'] == 'survived':
        by.setdefault(where(r['line']), []).append(r)
for fn, l in sorted(by.items(), key=lambda x: x[1][0]['line']):
    print(f'== {fn} ({len(l)})')
    for r in l:
        print(f"   {r['k']:4d} L{r['line']:<4d} {r.get('suite','?'):6s} {r['mutant'][:140]}")
