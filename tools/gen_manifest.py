#!/usr/bin/env python3
"""Regenerates MANIFEST.json from the property modules that exist in vk/props."""
import json, os, sys
V = os.path.dirname(os.path.dirname(os.path.abspath(__file__)))
props = [json.loads(l) for l in open(os.path.join(V, 'properties.jsonl'))]
INFO = json.load(open(os.path.join(V, 'tools', 'manifest_info.json')))
checks, na = [], []
for p in props:
    pid = p['id']
    if os.path.exists(os.path.join(V, 'vk', 'props', pid.lower() + '.py')) and pid in INFO:
        i = INFO[pid]
        checks.append(dict(
            property_id=pid,
            quick_cmd=f'./check {pid} quick',
            thorough_cmd=f'./check {pid} thorough',
            evidence_file=f'evidence/{pid}.json',
            replay_cmd_template=f'./check {pid} --replay {{path}}',
            engine='hypothesis',
            level_claimed=dict(category='exploration', text=i['text'], design_ref=f'DESIGN.md section 4, {pid}'),
            level_note=i['note'],
            technique=i['technique']))
    else:
        na.append(dict(property_id=pid, reason='check not built yet (work in progress); see DESIGN.md section 4 for the planned check'))
m = dict(version=1,
         setup_cmd='./check setup',
         hooks=dict(guard='KYUPY_VERIF', enable='no source hooks are needed: checks import /repo/src directly (PYTHONPATH) and drive schedules from the harness side',
                    baseline_off_cmd='cd /repo && /venv/bin/python -m pytest -ra -q -p no:cacheprovider --timeout=900 --continue-on-collection-errors',
                    source_commits=[], add_only=True),
         engines=[dict(name='hypothesis', path='vk/run.py', serves_properties=[c['property_id'] for c in checks],
                       kind_free_text='Hypothesis 6.168 property-based testing (composite strategies, rule-based state machines) + complete enumeration of finite spaces, sharded over a process pool; explicit reference models in vk/refmodel.py')],
         checks=checks,
         notes='All checks: ./check <Cxx> <quick|thorough>; VERIF_SEED selects the seed; replay files are plain JSON cases re-run without Hypothesis. known_findings.json lists fixed/known defects.',
         not_applicable=na)
json.dump(m, open(os.path.join(V, 'MANIFEST.json'), 'w'), indent=1)
print(f'{len(checks)} checks, {len(na)} not claimed')
