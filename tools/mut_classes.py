#!/usr/bin/env python3
"""tools/mut_classes.py: survivors of the mutation campaign by file and enclosing function, with the class they were sorted into by hand"""
import ast, glob, json, os
OUT = {   # functions no listed property talks about
 'circuit.py': {'__repr__', 'dot', 'fanout_free_regions', '__eq__', 'remove_dangling_nodes'},
 'wave_sim.py': {'__repr__', '__getstate__', '__setstate__'},
 'sim.py': {'__repr__'},
 'logic.py': {'mv_latch', 'bp8v_latch', 'bp4v_latch', 'mv_transition', 'bit_in', 'interpret'},
 'logic_sim.py': {'s_ppo_to_ppi'},
 'techlib.py': {'pin_index', 'pin_is_output'},     # module-level functions of the legacy TechLibOld interface
 'sdf.py': {'__repr__', 'find_cell'},
 'stil.py': {'__repr__'},
 'verilog.py': {'__repr__'},
 '__init__.py': {'hr_sci', 'hr_bytes', 'hr_time', '__exit__', '__add__', '__init__', 'start_limit', 'stop_limit', '__setstate__', 'write', 'li', 'lib', 'lin',
                 'di', 'dib', 'din', 'ie', 'log', 'warn', 'range', 'load', 'batchrange'},
 'def_file.py': set(), 'bench.py': {'load'},
}
tot = dict(run=0, det=0, surv=0, out=0, suitefail=0)
print('| file | run | detected | survived | in functions outside the properties | killed by the repo tests | left to inspect |')
print('|------|-----|----------|----------|-------------------------------------|--------------------------|-----------------|')
for p in sorted(glob.glob('/verif/mutation/*.jsonl')):
    f = os.path.basename(p)[:-6]
    import subprocess
    tree = ast.parse(subprocess.check_output(['git', '-C', '/repo', 'show', f'9619ea0:src/kyupy/{f}']).decode())      # the tree the mutants were made from
    spans = [(n.lineno, n.end_lineno, n.name) for n in ast.walk(tree) if isinstance(n, (ast.FunctionDef, ast.ClassDef))]
    def where(line):
        best = None
        for a, b, name in spans:
            if a <= line <= b and (best is None or a >= best[0]): best = (a, b, name)
        return best[2] if best else '<module>'
    rs = [json.loads(l) for l in open(p)]
    surv = [r for r in rs if r['verdict'] == 'survived']
    out = [r for r in surv if where(r['line']) in OUT.get(f, set())]
    rest = [r for r in surv if r not in out]
    sf = [r for r in rest if r.get('suite') == 'fails']
    left = [r for r in rest if r not in sf]
    print(f'| {f} | {len(rs)} | {len(rs) - len(surv)} | {len(surv)} | {len(out)} | {len(sf)} | {len(left)} |')
    tot['run'] += len(rs); tot['det'] += len(rs) - len(surv); tot['surv'] += len(surv); tot['out'] += len(out); tot['suitefail'] += len(sf)
print(f"| total | {tot['run']} | {tot['det']} | {tot['surv']} | {tot['out']} | {tot['suitefail']} | {tot['surv'] - tot['out'] - tot['suitefail']} |")
