#!/usr/bin/env python3
"""Systematic first-order mutants of kyupy source files, run against the quick checks of the properties anchored in that file.

  tools/mutants.py list <file.py>                      print the mutants of src/kyupy/<file.py>
  tools/mutants.py run <file.py> [--max N] [--jobs J]  run up to N mutants (evenly spread), J at a time; results -> mutation/<file>.jsonl
  tools/mutants.py retest <file.py> Cxx,Cyy [--jobs J] run further checks on the recorded survivors of that file
  tools/mutants.py report                              summary table of all result files

Every mutant lives in a scratch copy of /repo/src under /tmp/mutwork (removed afterwards) and is run through VERIF_REPO; /repo is never
touched. A mutant counts as detected when one of the mapped checks exits 1 (VIOLATION), 2 (harness error: the change broke something the
harness relies on) or does not finish within the time limit; it survives when all mapped checks exit 0. Survivors are then run through the
repository's own test suite (does the change 'still pass the tests'?) and listed for inspection: each is either equivalent or a gap."""
import ast, json, os, shutil, signal, subprocess, sys, time
from concurrent.futures import ThreadPoolExecutor

REPO_SRC = '/repo/src'
VERIF = '/verif'
MAP = {'sim.py': ['C08', 'C07', 'C01', 'C02'], 'logic.py': ['C12', 'C15', 'C02'], 'logic_sim.py': ['C01', 'C02', 'C16', 'C06'],
       'wave_sim.py': ['C03', 'C04', 'C13', 'C06', 'C05'], 'circuit.py': ['C09', 'C17', 'C10'], 'verilog.py': ['C11'], 'bench.py': ['C11'],
       'sdf.py': ['C14'], 'stil.py': ['C18'], 'techlib.py': ['C19', 'C10'], 'def_file.py': ['C20'], '__init__.py': ['C15', 'C07']}
CMP = {ast.Lt: ast.LtE, ast.LtE: ast.Lt, ast.Gt: ast.GtE, ast.GtE: ast.Gt, ast.Eq: ast.NotEq, ast.NotEq: ast.Eq, ast.Is: ast.IsNot, ast.IsNot: ast.Is,
       ast.In: ast.NotIn, ast.NotIn: ast.In}
BIN = {ast.Add: ast.Sub, ast.Sub: ast.Add, ast.BitAnd: ast.BitOr, ast.BitOr: ast.BitAnd, ast.BitXor: ast.BitOr, ast.LShift: ast.RShift,
       ast.RShift: ast.LShift, ast.Mult: ast.Add, ast.FloorDiv: ast.Mult}


def mutants(path):
    """-> list of (lineno, description, source text)"""
    src = open(path).read()
    tree = ast.parse(src)
    out = []
    skip = set()       # docstrings and other big string constants
    for node in ast.walk(tree):
        if isinstance(node, ast.Expr) and isinstance(node.value, ast.Constant) and isinstance(node.value.value, str):
            skip.add(id(node.value))

    targets = []
    for node in ast.walk(tree):
        if isinstance(node, ast.Compare):
            for i, op in enumerate(node.ops):
                if type(op) in CMP:
                    targets.append(('cmp', node, i))
        elif isinstance(node, ast.BinOp) and type(node.op) in BIN:
            targets.append(('bin', node, None))
        elif isinstance(node, ast.AugAssign) and type(node.op) in BIN:
            targets.append(('aug', node, None))
        elif isinstance(node, ast.BoolOp):
            targets.append(('bool', node, None))
        elif isinstance(node, ast.UnaryOp) and isinstance(node.op, (ast.Not, ast.Invert)):
            targets.append(('unary', node, None))
        elif isinstance(node, ast.Constant) and isinstance(node.value, int) and not isinstance(node.value, bool) and -2 <= node.value <= 64:
            targets.append(('const+', node, None)); targets.append(('const-', node, None))
        elif isinstance(node, (ast.If, ast.While)):
            targets.append(('neg', node, None))
        elif isinstance(node, (ast.Assign, ast.AugAssign, ast.Expr)) and not (isinstance(node, ast.Expr) and isinstance(node.value, ast.Constant)):
            targets.append(('del', node, None))
        elif isinstance(node, (ast.Continue, ast.Break)):
            targets.append(('del', node, None))
    for kind, node, i in targets:
        saved = {}

        def setattr_(obj, name, val):
            saved[(id(obj), name)] = (obj, name, getattr(obj, name))
            setattr(obj, name, val)
        before = ast.unparse(node).split('\n')[0][:70]
        if kind == 'cmp':
            ops = list(node.ops); ops[i] = CMP[type(ops[i])](); setattr_(node, 'ops', ops)
        elif kind in ('bin', 'aug'):
            setattr_(node, 'op', BIN[type(node.op)]())
        elif kind == 'bool':
            setattr_(node, 'op', ast.Or() if isinstance(node.op, ast.And) else ast.And())
        elif kind == 'unary':
            # replace "not x" by "x" in place: turn the node into a no-op unary plus is not valid for bool; use double negation trick
            setattr_(node, 'op', ast.UAdd() if isinstance(node.op, ast.Invert) else ast.Not())
            if isinstance(saved[(id(node), 'op')][2], ast.Not):
                setattr_(node, 'operand', ast.UnaryOp(op=ast.Not(), operand=node.operand))
        elif kind == 'const+':
            setattr_(node, 'value', node.value + 1)
        elif kind == 'const-':
            setattr_(node, 'value', node.value - 1)
        elif kind == 'neg':
            setattr_(node, 'test', ast.UnaryOp(op=ast.Not(), operand=node.test))
        elif kind == 'del':
            pass
        try:
            if kind == 'del':
                text = delete_stmt(src, node)
            else:
                text = ast.unparse(ast.fix_missing_locations(tree))
            after = ast.unparse(node).split('\n')[0][:70] if kind != 'del' else 'pass'
        finally:
            for obj, name, val in saved.values():
                setattr(obj, name, val)
        if text is None:
            continue
        try:
            compile(text, path, 'exec')
        except SyntaxError:
            continue
        out.append((node.lineno, f'{kind}: {before}  =>  {after}', text))
    # canonical order, duplicates removed
    seen, res = set(), []
    for ln, d, t in sorted(out, key=lambda x: (x[0], x[1])):
        if t in seen:
            continue
        seen.add(t); res.append((ln, d, t))
    return res


def delete_stmt(src, node):
    """replace a simple one-line statement by 'pass' (textually, so the rest of the file keeps its layout)"""
    if node.end_lineno != node.lineno:
        return None
    lines = src.split('\n')
    line = lines[node.lineno - 1]
    seg = line[node.col_offset:node.end_col_offset]
    if ';' in line or not seg.strip():
        return None
    lines[node.lineno - 1] = line[:node.col_offset] + 'pass' + line[node.end_col_offset:]
    return '\n'.join(lines)


def run_cmd(cmd, env, timeout, cwd):
    p = subprocess.Popen(cmd, cwd=cwd, env=env, stdout=subprocess.PIPE, stderr=subprocess.STDOUT, text=True, start_new_session=True)
    try:
        out, _ = p.communicate(timeout=timeout)
        return p.returncode, out
    except subprocess.TimeoutExpired:
        os.killpg(p.pid, signal.SIGKILL)
        p.communicate()
        return 'timeout', ''


def run_one(fname, k, lineno, desc, text, workers, tlimit):
    work = f'/tmp/mutwork/{fname}-{k}'
    shutil.rmtree(work, ignore_errors=True)
    shutil.copytree(REPO_SRC, work + '/src')
    open(f'{work}/src/kyupy/{fname}', 'w').write(text)
    env = dict(os.environ, VERIF_REPO=work, VERIF_EVIDENCE_DIR=work + '/ev', VERIF_NOSHRINK='1', VERIF_WORKERS=str(workers), PYTHONHASHSEED='0')
    res = dict(file=fname, k=k, line=lineno, mutant=desc, checks={})
    verdict = 'survived'
    for prop in MAP[fname]:
        t0 = time.time()
        rc, out = run_cmd(['./check', prop, 'quick'], env, tlimit, VERIF)
        res['checks'][prop] = dict(rc=rc, s=round(time.time() - t0, 1))
        if rc != 0:
            verdict = {1: 'violation', 2: 'harness-error'}.get(rc, str(rc))
            det = [l for l in out.split('\n') if 'violation detail' in l or 'HARNESS ERROR' in l or 'Error' in l]
            res['by'] = prop; res['detail'] = (det[0][:200] if det else '')
            break
    res['verdict'] = verdict
    if verdict == 'survived':       # does the repository's own suite notice it?
        rc, out = run_cmd(['/venv/bin/python', '-m', 'pytest', '-q', '-x', '-p', 'no:cacheprovider', '--timeout=600', '/repo/tests'],
                          dict(os.environ, PYTHONPATH=work + '/src'), 900, '/repo')
        res['suite'] = 'passes' if rc == 0 else 'fails'
    shutil.rmtree(work, ignore_errors=True)
    return res


def main():
    cmd = sys.argv[1]
    if cmd == 'list':
        for k, (ln, d, _) in enumerate(mutants(f'{REPO_SRC}/kyupy/{sys.argv[2]}')):
            print(k, ln, d)
    elif cmd == 'run':
        fname = sys.argv[2]
        args = sys.argv[3:]
        mx = int(args[args.index('--max') + 1]) if '--max' in args else 10 ** 9
        jobs = int(args[args.index('--jobs') + 1]) if '--jobs' in args else 4
        lo = int(args[args.index('--from') + 1]) if '--from' in args else 0
        ms = mutants(f'{REPO_SRC}/kyupy/{fname}')
        idx = list(range(len(ms)))
        if len(idx) > mx:
            step = len(idx) / mx
            idx = sorted({int(i * step) for i in range(mx)})
        idx = [i for i in idx if i >= lo]
        os.makedirs(f'{VERIF}/mutation', exist_ok=True)
        outp = f'{VERIF}/mutation/{fname}.jsonl'
        done = set()
        if os.path.exists(outp):
            done = {json.loads(l)['k'] for l in open(outp)}
        todo = [i for i in idx if i not in done]
        print(f'{fname}: {len(ms)} mutants, running {len(todo)} ({len(done)} already recorded)', flush=True)
        with ThreadPoolExecutor(jobs) as ex, open(outp, 'a') as f:
            futs = [ex.submit(run_one, fname, i, ms[i][0], ms[i][1], ms[i][2], max(2, 16 // jobs), 240) for i in todo]
            for fu in futs:
                r = fu.result()
                f.write(json.dumps(r) + '\n'); f.flush()
                print(r['k'], r['line'], r['verdict'], r.get('by', ''), r.get('suite', ''), '|', r['mutant'], flush=True)
        shutil.rmtree('/tmp/mutwork', ignore_errors=True)
        shutil.rmtree(f'{VERIF}/replays', ignore_errors=True)
    elif cmd == 'retest':           # tools/mutants.py retest <file.py> Cxx,Cyy [--jobs J]: run further checks on the survivors
        fname, props = sys.argv[2], sys.argv[3].split(',')
        args = sys.argv[4:]
        jobs = int(args[args.index('--jobs') + 1]) if '--jobs' in args else 4
        ms = mutants(f'{REPO_SRC}/kyupy/{fname}')
        outp = f'{VERIF}/mutation/{fname}.jsonl'
        rs = [json.loads(l) for l in open(outp)]
        todo = [r for r in rs if r['verdict'] == 'survived' and ('--force' in args or not all(p_ in r['checks'] for p_ in props))]
        print(f'{fname}: retesting {len(todo)} survivors with {props}', flush=True)
        saved = MAP[fname]
        MAP[fname] = props

        def again(r):
            n = run_one(fname, r['k'], r['line'], r['mutant'], ms[r['k']][2], max(2, 16 // jobs), 240)
            r['checks'].update(n['checks'])
            if n['verdict'] != 'survived':
                r['verdict'] = n['verdict']; r['by'] = n.get('by'); r['detail'] = n.get('detail', '')
            return r
        with ThreadPoolExecutor(jobs) as ex:
            for r in ex.map(again, todo):
                print(r['k'], r['line'], r['verdict'], r.get('by', ''), '|', r['mutant'][:120], flush=True)
        MAP[fname] = saved
        with open(outp, 'w') as f:
            for r in rs:
                f.write(json.dumps(r) + '\n')
        shutil.rmtree('/tmp/mutwork', ignore_errors=True)
        shutil.rmtree(f'{VERIF}/replays', ignore_errors=True)
    elif cmd == 'report':
        import glob
        print('| file | mutants run | detected (violation / harness error / timeout) | survived | of these pass the repo tests |')
        print('|------|-------------|--------------------------------------------------|----------|------------------------------|')
        for p in sorted(glob.glob(f'{VERIF}/mutation/*.jsonl')):
            rs = [json.loads(l) for l in open(p)]
            v = sum(r['verdict'] == 'violation' for r in rs); h = sum(r['verdict'] == 'harness-error' for r in rs)
            t = sum(r['verdict'] == 'timeout' for r in rs); s = [r for r in rs if r['verdict'] == 'survived']
            print(f'| {os.path.basename(p)[:-6]} | {len(rs)} | {v + h + t} ({v} / {h} / {t}) | {len(s)} | {sum(r.get("suite") == "passes" for r in s)} |')


if __name__ == '__main__':
    main()
