#!/usr/bin/env python3
"""tools/seed_store.py <seed-id> <Cxx> <srcdir> <verdict text...>: copies a confirmed seeded change into /verif/seeded/<id>/ with meta.json"""
import json, os, shutil, sys
sid, prop, src = sys.argv[1:4]
verdict = ' '.join(sys.argv[4:])
d = f'/verif/seeded/{sid}'
os.makedirs(d, exist_ok=True)
shutil.copy(f'{src}/patch.diff', f'{d}/patch.diff')
shutil.copy(f'{src}/demo.py', f'{d}/demo.py')
notes = open(f'{src}/notes.md').read() if os.path.exists(f'{src}/notes.md') else ''
meta = dict(id=sid, property=prop, origin='written by an independent sub-agent that saw only the property text and a scratch worktree of /repo',
            needs_to_manifest=notes.strip(),
            confirmed_by=['fresh worktree of /repo HEAD: demo.py passes (exit 0) without the change and fails (exit 1) with it',
                          'repository test suite with the change: 31 passed',
                          f'tools/seed_eval.sh {sid} seeded/{sid}/patch.diff seeded/{sid}/demo.py {prop} quick  (git -C /repo apply; ./check {prop} quick; git -C /repo checkout -- .)'],
            result=verdict)
json.dump(meta, open(f'{d}/meta.json', 'w'), indent=1)
print('stored', d)
