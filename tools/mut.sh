#!/bin/bash
# tools/mut.sh <Cxx> <file under src/kyupy> <python-regex> <replacement> [tier]
# Sensitivity experiment: copies /repo/src to a scratch dir, applies ONE textual mutation, runs the check
# against the mutated copy (VERIF_REPO), reports whether it was caught, removes the copy.
P=$1; F=$2; RE=$3; REPL=$4; TIER=${5:-quick}
D=$(mktemp -d /tmp/kymut.XXXXXX)
mkdir -p $D/src && cp -r /repo/src/kyupy $D/src/ && rm -rf $D/src/kyupy/__pycache__
/venv/bin/python - "$D/src/kyupy/$F" "$RE" "$REPL" <<'PY' || { rm -rf $D; exit 3; }
import re, sys
p, rx, repl = sys.argv[1:4]
s = open(p).read()
n = len(re.findall(rx, s, flags=re.M))
if n == 0:
    print('MUTATION DID NOT APPLY'); sys.exit(1)
s2 = re.sub(rx, repl, s, count=int(__import__('os').environ.get('MUT_COUNT', '1')), flags=re.M)
open(p, 'w').write(s2)
PY
cd "$(dirname "$0")/.."
VERIF_EVIDENCE_DIR=$D/ev VERIF_REPO=$D VERIF_NOSHRINK=1 ./check $P $TIER > $D/out.txt 2>&1
rc=$?
if [ $rc = 1 ]; then echo "CAUGHT  $P $F /$RE/ -> /$REPL/ :: $(grep -m1 'violation detail' $D/out.txt | cut -c1-160)";
elif [ $rc = 0 ]; then echo "MISSED  $P $F /$RE/ -> /$REPL/";
else echo "ERROR rc=$rc $P $F /$RE/"; tail -5 $D/out.txt; fi
rm -rf $D
rm -rf replays/$P
