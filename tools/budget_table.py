#!/usr/bin/env python3
"""prints the markdown budget table of DESIGN.md section 9.1 from the Part definitions (run with /venv/bin/python, PYTHONPATH=/repo/src:/verif)"""
import importlib, sys
sys.path.insert(0, '/verif')
from vk.run import kyupy_dir
kyupy_dir()
print('| property | parts (workers x cases per worker: quick / thorough) |')
print('|----------|------------------------------------------------------|')
for k in range(1, 21):
    m = importlib.import_module(f'vk.props.c{k:02d}')
    cells = []
    for p in m.PARTS:
        if p.enumerate is not None:
            nq, nt = (sum(1 for _ in p.enumerate(t)) for t in ('quick', 'thorough'))
            cells.append(f'`{p.name}`: enumerated, {nq} / {nt} cases ({p.budget["quick"][0]} / {p.budget["thorough"][0]} workers)')
        elif p.machine is not None:
            cells.append(f'`{p.name}` (rule-based machine): {p.budget["quick"][0]}x{p.budget["quick"][1]} / {p.budget["thorough"][0]}x{p.budget["thorough"][1]}')
        else:
            cells.append(f'`{p.name}`: {p.budget["quick"][0]}x{p.budget["quick"][1]} / {p.budget["thorough"][0]}x{p.budget["thorough"][1]}')
    print(f'| {m.ID} | ' + '; '.join(cells) + ' |')
