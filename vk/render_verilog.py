"""Renders an abstract netlist as structural Verilog over one of the built-in libraries, and as ISCAS bench text.

Hand-written cell tables (vendor conventions, independent of kyupy.techlib): for every library
    (family, arity) -> (cell name, pin names of the operands in primitive operand order, output pin)
"""
from vk import refmodel as rm


def _var(fmt, pins, out, arities, fams):
    t = {}
    for fam in fams:
        for n in arities:
            t[(fam, n)] = (fmt.format(fam=fam, n=n), pins[:n], out(fam) if callable(out) else out)
    return t


def _nangate(zn_variant):
    t = {}
    ao = (lambda fam: 'ZN') if zn_variant else (lambda fam: 'Z')
    t.update(_var('{fam}{n}_X1', ['A1', 'A2', 'A3', 'A4'], ao, [2, 3, 4], ['AND', 'OR']))
    t.update(_var('{fam}{n}_X2', ['A1', 'A2', 'A3', 'A4'], 'ZN', [2, 3, 4], ['NAND', 'NOR']))
    if zn_variant:
        t[('XOR', 2)] = ('XOR2_X1', ['A', 'B'], 'Z'); t[('XNOR', 2)] = ('XNOR2_X2', ['A', 'B'], 'ZN')
        t[('INV', 1)] = ('INV_X4', ['A'], 'ZN')
    else:
        t[('XOR', 2)] = ('XOR2_X1', ['A1', 'A2'], 'Z'); t[('XNOR', 2)] = ('XNOR2_X2', ['A1', 'A2'], 'ZN')
        t[('INV', 1)] = ('INV_X4', ['I'], 'ZN')
    t[('BUF', 1)] = ('BUF_X2', ['A'], 'Z')
    t[('AOI21', 3)] = ('AOI21_X1', ['B1', 'B2', 'A'], 'ZN'); t[('OAI21', 3)] = ('OAI21_X2', ['B1', 'B2', 'A'], 'ZN')
    t[('AOI22', 4)] = ('AOI22_X1', ['A1', 'A2', 'B1', 'B2'], 'ZN'); t[('OAI22', 4)] = ('OAI22_X4', ['A1', 'A2', 'B1', 'B2'], 'ZN')
    t[('AOI211', 4)] = ('AOI211_X1', ['C1', 'C2', 'A', 'B'], 'ZN'); t[('OAI211', 4)] = ('OAI211_X1', ['C1', 'C2', 'A', 'B'], 'ZN')
    t[('MUX21', 3)] = ('MUX2_X1', ['A', 'B', 'S'], 'Z')
    return dict(cells=t, dff=('DFF_X1', 'D', 'CK', 'Q', 'QN'), sdff=('SDFF_X2', 'D', 'SI', 'SE', 'CK', 'Q', 'QN'),
                const=(('LOGIC0_X1', 'Z'), ('LOGIC1_X1', 'Z')))


def _saed(suffix, pin, bufin, o_pos, o_neg, o_inv, o_buf, mux_sel):
    t = {}
    p = [f'{pin}{i}' for i in range(1, 5)]
    t.update(_var('{fam}{n}X1' + suffix, p, o_pos, [2, 3, 4], ['AND', 'OR']))
    t.update(_var('{fam}{n}X0' + suffix, p, o_neg, [2, 3, 4], ['NAND', 'NOR']))
    t.update(_var('{fam}{n}X1' + suffix, p, o_pos, [2, 3], ['XOR', 'XNOR']))
    t[('INV', 1)] = ('INVX1' + suffix, [bufin], o_inv); t[('BUF', 1)] = ('NBUFFX2' + suffix, [bufin], o_buf)
    for fam, n, o in (('AO21', 3, o_pos), ('OA21', 3, o_pos), ('AOI21', 3, o_neg), ('OAI21', 3, o_neg),
                      ('AO22', 4, o_pos), ('OA22', 4, o_pos), ('AOI22', 4, o_neg), ('OAI22', 4, o_neg)):
        t[(fam, n)] = (f'{fam}X1' + suffix, p[:n], o)
    t[('MUX21', 3)] = ('MUX21X1' + suffix, [p[0], p[1], mux_sel], o_pos)
    return t


LIBS = {
    'NANGATE': _nangate(False),
    'NANGATE_ZN': _nangate(True),
    'SAED32': dict(cells=_saed('_RVT', 'A', 'A', 'Y', 'Y', 'Y', 'Y', 'S0'), dff=('DFFX1_RVT', 'D', 'CLK', 'Q', 'QN'),
                   sdff=('SDFFX1_RVT', 'D', 'SI', 'SE', 'CLK', 'Q', 'QN'), const=(('TIEL_RVT', 'Y'), ('TIEH_RVT', 'Y'))),
    'SAED90': dict(cells=_saed('', 'IN', 'INP', 'Q', 'QN', 'ZN', 'Z', 'S'), dff=('DFFX1', 'D', 'CLK', 'Q', 'QN'),
                   sdff=('SDFFX2_LVT', 'D', 'SI', 'SE', 'CLK', 'Q', 'QN'), const=(('TIEL', 'ZN'), ('TIEH', 'Z'))),
    'GSC180': dict(cells={('BUF', 1): ('BUFX1', ['A'], 'Y'), ('INV', 1): ('INVX2', ['A'], 'Y'), ('AND', 2): ('AND2X1', ['A', 'B'], 'Y'),
                          ('NAND', 2): ('NAND2X1', ['A', 'B'], 'Y'), ('NAND', 3): ('NAND3X1', ['A', 'B', 'C'], 'Y'),
                          ('NAND', 4): ('NAND4X1', ['A', 'B', 'C', 'D'], 'Y'), ('OR', 2): ('OR2X1', ['A', 'B'], 'Y'),
                          ('OR', 4): ('OR4X1', ['A', 'B', 'C', 'D'], 'Y'), ('NOR', 2): ('NOR2X1', ['A', 'B'], 'Y'),
                          ('NOR', 3): ('NOR3X1', ['A', 'B', 'C'], 'Y'), ('NOR', 4): ('NOR4X1', ['A', 'B', 'C', 'D'], 'Y'),
                          ('XOR', 2): ('XOR2X1', ['A', 'B'], 'Y'), ('MUX21', 3): ('MX2X1', ['A', 'B', 'S0'], 'Y'),
                          ('AOI21', 3): ('AOI21X1', ['A0', 'A1', 'B0'], 'Y'), ('AOI22', 4): ('AOI22X1', ['A0', 'A1', 'B0', 'B1'], 'Y'),
                          ('OAI21', 3): ('OAI21X1', ['A0', 'A1', 'B0'], 'Y'), ('OAI22', 4): ('OAI22X1', ['A0', 'A1', 'B0', 'B1'], 'Y')},
                   dff=('DFFX1', 'D', 'CK', 'Q', 'QN'), sdff=None, const=None),
}


# physical-only cells of the libraries (no output pin): (cell, input pin or None). They may appear anywhere in a netlist and have no function.
NOOUT = {'NANGATE': [('FILLCELL_X4', None), ('FILLCELL_X32', None)], 'NANGATE_ZN': [('FILLCELL_X1', None), ('FILLCELL_X16', None)],
         'SAED32': [('ANTENNA_RVT', 'INP'), ('CLOAD1_RVT', 'A'), ('DCAP_RVT', None), ('SHFILL2_RVT', None), ('HEADX2_RVT', 'SLEEP')],
         'SAED90': [('ANTENNA', 'INP'), ('CLOAD1_LVT', 'INP'), ('DCAP', None), ('DHFILLHLH2', None), ('HEADX4_HVT', 'SLEEP')],
         'GSC180': []}


def fit_to_lib(nl, lib):
    """Replaces gates that the library cannot express by an expressible gate of the same arity (keeps the netlist well formed).
    Also removes open-pin constant idioms the renderer does not use. Returns a new netlist dict."""
    cells = LIBS[lib]['cells']
    out = dict(nl)
    out['g'] = []
    for g in nl['g']:
        fam, pins = g['f'], list(g['i'])
        n = rm.arity(fam, pins)
        pins = (pins + [None] * 4)[:n]
        if (fam, n) not in cells:
            for alt in ('NAND', 'NOR', 'AND', 'OR', 'AOI21', 'OAI22', 'INV'):
                if (alt, n) in cells:
                    fam = alt
                    break
        if fam in rm.VARIADIC and pins[-1] is None and fam in ('AND', 'NAND') and n > 2:
            fam = 'NOR' if ('NOR', n) in cells else 'OR'      # never leave the last pin of an AND/NAND cell open (ambiguous arity)
        out['g'].append(dict(f=fam, k=g['k'], i=pins))
    out['st'] = [dict(s, t='D') for s in nl['st']]           # flip-flops only (library cells)
    return out


class Style:
    def __init__(self, seed):
        self.r = seed if seed > 0 else 0x5eed

    def pick(self, n):
        self.r, k = divmod(self.r, n) if self.r >= n else (self.r * 2654435761 % 0xffffffffff + 12345, self.r % n)
        return k

    def ws(self):
        return [' ', '  ', '\n', ' \n\t', ' /* c */ ', ' // line comment ; endmodule\n', ' (* attr = 1 *) '][self.pick(7)]

    def sp(self):
        return [' ', '', '  ', '\n  '][self.pick(4)]


def render_verilog(nl, lib, seed, simple=False, modname='top'):
    """-> (text, truth) with truth = dict(ports=[names in io order], pi=[name per PI], po=[name per PO], st=[instance name per state element])"""
    L = LIBS[lib]
    st = Style(seed)
    npi = nl['pi']
    rd = rm.readers(nl)
    # ---- port naming: scalars and buses ---------------------------------------------------------
    def group(n, base):
        names, decls, k, b = [], [], 0, 0
        while k < n:
            w = 1 + st.pick(4) if st.pick(3) else 0
            w = min(w, n - k)
            if w == 0:
                nm = f'{base}{k}'
                names.append(nm); decls.append((nm, None)); k += 1
            else:
                bn = f'{base}bus{b}'; b += 1
                lo = [0, 1, 2, 7, 8, 9, 10, 14, 98][st.pick(9)]      # bounds that cross 9/10 and 99/100 (numeric vs textual order)
                desc = st.pick(2)
                idx = list(range(lo, lo + w))
                if desc: idx.reverse()
                decls.append((bn, (idx[0], idx[-1])))
                names += [f'{bn}[{i}]' for i in idx]; k += w
        return names, decls
    pi_names, pi_decls = group(npi, 'pi')
    po_names, po_decls = group(len(nl['po']), 'po')
    # ---- nets ----------------------------------------------------------------------------------
    net = {}
    for k in range(npi): net[f'i{k}'] = pi_names[k]
    wire_decl = []
    esc = lambda s: '\\' + s + [' ', ' ', '\t', '\n', '\r\n', ' \r\n'][st.pick(6)]        # an escaped identifier ends at any white space
    bound_po = {}
    for k, src in enumerate(nl['po']):       # an output port may be the net of its source (driven directly by an instance pin)
        is_const = src[0] == 'g' and nl['g'][int(src[1:])]['f'] in ('BUF', 'INV') and nl['g'][int(src[1:])]['i'][0] is None
        if src[0] in 'gsn' and src not in net and st.pick(3) and not (is_const and st.pick(4)):
            net[src] = po_names[k]; bound_po[k] = True
    wb = 0
    pending_bus = []
    for src in [f'g{k}' for k in range(len(nl['g']))] + [f's{k}' for k in range(len(nl['st']))] + [f'n{k}' for k in range(len(nl['st']))]:
        if src in net:
            continue
        style = st.pick(5)
        if style == 0:
            net[src] = f'w_{src}'; wire_decl.append((net[src], None))
        elif style == 1:
            net[src] = f'u_{src}'                       # implicit wire, never declared
        elif style == 2:
            nm = f'h/{src}.x[{st.pick(9)}]'
            cands = [v for v in net.values() if v.replace('_', 'a').isalnum() and ('\\' + v) not in net.values()]
            if cands and not simple and st.pick(3) == 0:
                nm = '\\' + cands[st.pick(len(cands))]    # an escaped identifier whose own text starts with a backslash and continues like another net's name
            net[src] = nm                               # needs an escaped identifier
        elif style == 3:
            pending_bus.append(src)
            if len(pending_bus) >= 2 + st.pick(2):
                bn = f'wb{wb}'; wb += 1
                lo = [0, 1, 8, 9, 99][st.pick(5)]; idx = list(range(lo, lo + len(pending_bus)))
                if st.pick(2): idx.reverse()
                wire_decl.append((bn, (idx[0], idx[-1])))
                for s_, i in zip(pending_bus, idx): net[s_] = f'{bn}[{i}]'
                pending_bus = []
        else:
            net[src] = f'n{len(net)}'; wire_decl.append((net[src], None))
    for s_ in pending_bus:
        net[s_] = f'w1_{s_}'; wire_decl.append((f'w1_{s_}', (0, 0)))     # 1-bit bus, referenced without index
    alias = {}          # src -> [alias wire names] (assign chains: a1 = net, a2 = a1, ...)
    alias_assigns = []
    for src in sorted(net):
        if st.pick(4) == 0 and not simple:
            chain = [f'al{len(alias)}_{j}' for j in range(1 + st.pick(3))]
            alias[src] = chain
            if st.pick(2): wire_decl.append((chain[0], None))

    onebit = {f'{bn}[{rng[0]}]': bn for bn, rng in pi_decls + po_decls if rng is not None and rng[0] == rng[1]}

    def plain(n):
        if n.startswith('h/') or n.startswith('\\'): return esc(n)
        if n.startswith('w1_'): return n if st.pick(2) else n + '[0]'
        if n in onebit and not simple and st.pick(2): return onebit[n]      # one-bit port bus [k:k] referenced without index
        if not simple and n.endswith(']') and st.pick(5) == 0:              # a bit select may be written with leading zeros: d[07]
            base_, idx_ = n[:-1].rsplit('[', 1)
            if idx_.isdigit() and base_.replace('_', 'a').isalnum():
                return f'{base_}[{"0" * (1 + st.pick(2))}{idx_}]'
        return n

    def ref(src):
        if src in alias and st.pick(3):
            return alias[src][st.pick(len(alias[src]))]
        return plain(net[src])

    for src, chain in alias.items():
        prev = plain(net[src])
        for a_ in chain:
            alias_assigns.append(f'assign {a_}{st.sp()}={st.sp()}{prev}{st.sp()};')
            prev = a_
    def tname(n):      # name as it appears in the circuit
        return n + '[0]' if n.startswith('w1_') else n
    # ---- statements ----------------------------------------------------------------------------
    decl_stmts, body = [], []
    def decl(kind, items):
        for nm, rng in items:
            r = '' if rng is None else f'[{rng[0]}{st.sp()}:{st.sp()}{rng[1]}] ' if rng[0] != rng[1] or st.pick(2) else f'[{rng[0]}] '
            kw = kind
            if not simple and kind == 'wire' and st.pick(4) == 0: kw = 'tri'            # same meaning for a gate-level netlist
            if not simple and kind == 'input' and st.pick(6) == 0: kw = 'inout'         # documented: treated as input
            decl_stmts.append(f'{kw} {r}{nm}{st.sp()};')
            if not simple and kind in ('input', 'output') and st.pick(5) == 0:      # a port may be declared as a wire as well (before or after)
                decl_stmts.insert(len(decl_stmts) - st.pick(2), f'wire {r}{nm}{st.sp()};')
    decl('input', pi_decls); decl('output', po_decls); decl('wire', wire_decl)
    inst_names = {}
    insts = []          # what was instantiated: name, cell, {input pin: src}, {output pin: src}
    floating, wire_decl_late = [], []

    def iname(prefix, k):
        nm = [f'{prefix}{k}', f'U{prefix}{k}', f'{prefix}_{k}_reg', f'{prefix}_reg[{k}]' if simple else f'top/{prefix}[{k}]', f'{prefix}_reg_{k}_'][st.pick(5)]      # the last one: a register bit as renamed by a synthesis tool
        return nm
    def inst(cell, name, conns):
        order = list(conns)
        for i in range(len(order) - 1, 0, -1):
            j = st.pick(i + 1); order[i], order[j] = order[j], order[i]
        pins = []
        for p, v in order:
            if v is None:
                k = st.pick(4)
                if k == 0: continue                       # pin not mentioned at all
                if k == 3 and not simple:                 # a floating (declared or implicit, never driven) wire reads 0 like an open pin
                    floating.append(f'float{len(floating)}')
                    if st.pick(2): wire_decl_late.append(floating[-1])
                    pins.append(f'.{p}({floating[-1]})')
                    continue
                pins.append(f'.{p}{st.sp()}({st.sp()})' if k == 1 else f".{p}(1'b0)")
            else:
                pins.append(f'.{p}{st.sp()}({st.sp()}{v}{st.sp()})')
        nm = esc(name) if not name.replace('_', 'a').isalnum() else name
        body.append(f'{cell}{st.ws()}{nm}{st.sp()}({st.sp()}' + f'{st.sp()},{st.sp()}'.join(pins) + f'{st.sp()}){st.sp()};')
    const_insts = []
    def operand(src, as_const_ok=True):
        if src is None: return None
        return ref(src)
    skip_gate = set()
    st_names = []
    for k, s in enumerate(nl['st']):
        nm = iname('ff', k); st_names.append(nm)
        d = s['d']
        scan = None
        if L['sdff'] and d is not None and d[0] == 'g':
            g = nl['g'][int(d[1:])]
            if g['f'] == 'MUX21' and len(rd.get(d, [])) == 1 and st.pick(2) and not simple:
                scan = g
        qn = f'n{k}' in rd
        q = f's{k}' in rd
        if scan is not None:
            cell, pd, psi, pse, pck, pq, pqn = L['sdff']
            skip_gate.add(int(d[1:]))
            conns = [(pd, operand(scan['i'][0])), (psi, operand(scan['i'][1])), (pse, operand(scan['i'][2]))]
        else:
            cell, pd, pck, pq, pqn = L['dff']
            conns = [(pd, operand(d))]
        conns.append((pck, operand(s.get('c'))))
        if q or st.pick(2): conns.append((pq, plain(net[f's{k}']) if q else None))
        if qn: conns.append((pqn, plain(net[f'n{k}'])))
        conns = [(p, v) for p, v in conns if not (v is None and p in (pq, pqn))]      # unconnected outputs are simply not mentioned
        insts.append(dict(name=nm, cell=cell, ins={pd: d, pck: s.get('c')} if scan is None else {}, outs={pq: f's{k}' if q else None, pqn: f'n{k}' if qn else None}))
        inst(cell, nm, conns)
    for k, g in enumerate(nl['g']):
        if k in skip_gate:
            continue
        fam, pins = g['f'], g['i']
        n = rm.arity(fam, pins)
        cell, ipins, opin = L['cells'][(fam, n)]
        conns = [(ipins[j], operand(pins[j] if j < len(pins) else None)) for j in range(n)]
        if f'g{k}' in rd:
            conns.append((opin, plain(net[f'g{k}'])))
        elif st.pick(2):
            conns.append((opin, f'open_{k}'))
        gname = iname('g', k)
        insts.append(dict(name=gname, cell=cell, ins={ipins[j]: (pins[j] if j < len(pins) else None) for j in range(n)},
                          outs={opin: f'g{k}' if f'g{k}' in rd else None}))
        inst(cell, gname, conns)
    # physical-only instances (antenna diodes on some signal, fillers, decaps): several in a row, anywhere among the statements
    nphys = 0
    if not simple and NOOUT[lib] and st.pick(3) == 0:
        srcs = sorted(net)
        for _ in range(1 + st.pick(6)):
            cell, pin = NOOUT[lib][st.pick(len(NOOUT[lib]))]
            conns = [(pin, ref(srcs[st.pick(len(srcs))]))] if pin is not None and srcs and st.pick(4) else []
            inst(cell, f'phys_{nphys}', conns); nphys += 1
    # outputs that are not the net of their source: continuous assigns (single, concatenated, part select)
    def compact(names, decls):
        """writes a list of bus bits as a part select or a whole bus when they are consecutive in the declared direction, else as a concatenation"""
        import re as _re
        ms = [_re.match(r'^(\w+)\[(\d+)\]$', n) for n in names]
        if len(names) >= 2 and all(ms) and len({m[1] for m in ms}) == 1 and decls.get(ms[0][1]) is not None:
            base = ms[0][1]; idx = [int(m[2]) for m in ms]; rng = decls[base]
            step = 1 if rng[0] <= rng[1] else -1
            if all(idx[i + 1] - idx[i] == step for i in range(len(idx) - 1)):
                whole = idx[0] == rng[0] and idx[-1] == rng[1]
                k_ = st.pick(3)
                if whole and k_ == 0: return base
                if k_ <= 1: return f'{base}[{idx[0]}{st.sp()}:{st.sp()}{idx[-1]}]'
        return '{' + f'{st.sp()},{st.sp()}'.join(runs(names, decls)) + '}'

    def runs(names, decls):
        """items of a concatenation: runs of consecutive bits of one declared bus may be written as a part select or, when they cover the bus, by its bare name"""
        import re as _re
        out, i = [], 0
        while i < len(names):
            m = _re.match(r'^(\w+)\[(\d+)\]$', names[i])
            rng = decls.get(m[1]) if m else None
            j = i + 1
            if rng is not None and rng[0] != rng[1] and not simple:
                step = 1 if rng[0] <= rng[1] else -1
                while j < len(names):
                    m2 = _re.match(r'^(\w+)\[(\d+)\]$', names[j])
                    if not m2 or m2[1] != m[1] or int(m2[2]) != int(m[2]) + (j - i) * step: break
                    j += 1
                if j - i >= 2 and st.pick(3):
                    lo, hi = int(m[2]), int(m[2]) + (j - i - 1) * step
                    out.append(m[1] if (lo, hi) == tuple(rng) and st.pick(2) else f'{m[1]}[{lo}{st.sp()}:{st.sp()}{hi}]')
                    i = j
                    continue
            out.append(names[i]); i += 1
        return out

    todo = [k for k in range(len(nl['po'])) if k not in bound_po]
    assigns = []
    while todo:
        k = todo.pop(0)
        grp = [k]
        isc = lambda j: nl['po'][j][0] == 'g' and nl['g'][int(nl['po'][j][1:])]['f'] in ('BUF', 'INV') and nl['g'][int(nl['po'][j][1:])]['i'][0] is None
        while todo and ((st.pick(3) == 0 and len(grp) < 3) or (isc(k) and isc(todo[0]) and st.pick(4) and len(grp) < 6)):
            grp.append(todo.pop(0))
        def constval(j):
            src = nl['po'][j]
            if src[0] == 'g':
                g = nl['g'][int(src[1:])]
                if g['f'] in ('BUF', 'INV') and g['i'][0] is None:
                    return 1 if g['f'] == 'INV' else 0
            return None
        cv = [constval(j) for j in grp]
        if all(v is not None for v in cv) and st.pick(4):
            width = len(grp)
            val = int(''.join(str(v) for v in cv), 2)
            over = val + ((1 + st.pick(5)) << width) if st.pick(4) == 0 else val     # digits beyond the declared width are cut off (Verilog truncates)
            lit = [f"{width}'b" + ('1' if over != val else '') + ''.join(str(v) for v in cv), f"{width}'d{over}", f"{width}'h{over:x}",
                   f"{width}'B" + ''.join(str(v) for v in cv)][st.pick(4)]
            lhs = po_names[grp[0]] if width == 1 else '{' + ','.join(po_names[j] for j in grp) + '}'
            if not simple and st.pick(3) == 0:         # the constant reaches the port through a named wire: two assigns, in any order
                cw = f'cw{len(assigns)}'
                decl_stmts.append(f'wire [{width - 1}:0] {cw};' if width > 1 else f'wire {cw};')
                pair = [f'assign {lhs}{st.sp()}={st.sp()}{cw}{st.sp()};', f'assign {cw}{st.sp()}={st.sp()}{lit}{st.sp()};']
                assigns += pair if st.pick(2) else pair[::-1]
            else:
                assigns.append(f'assign {lhs}{st.sp()}={st.sp()}{lit}{st.sp()};')
        elif len(grp) == 1:
            assigns.append(f'assign{st.ws()}{po_names[k]}{st.sp()}={st.sp()}{ref(nl["po"][k])}{st.sp()};')
        else:
            lhs = compact([po_names[j] for j in grp], dict(po_decls))
            rnames = [net[nl['po'][j]] if nl['po'][j][0] == 'i' else None for j in grp]
            rhs = compact(rnames, dict(pi_decls)) if all(r is not None for r in rnames) and st.pick(2) else None
            if rhs is None or rhs.startswith('{'):
                items = [ref(nl['po'][j]) for j in grp]
                rhs = '{' + f'{st.sp()},{st.sp()}'.join(runs(items, dict(pi_decls + wire_decl))) + '}'
            assigns.append(f'assign {lhs}{st.sp()}={st.sp()}{rhs};')
    for w_ in wire_decl_late:
        decl_stmts.append(f'wire {w_};')
    undriven = []
    if not simple and st.pick(3) == 0:
        undriven = [('undrv0', None)] if st.pick(2) else [('undrvbus', (1, 0))]
        decl('output', undriven)
    # shuffle statements
    stmts = body + assigns + alias_assigns
    for i in range(len(stmts) - 1, 0, -1):
        j = st.pick(i + 1); stmts[i], stmts[j] = stmts[j], stmts[i]
    if st.pick(2):            # declarations may follow the instances
        allst = stmts + decl_stmts if st.pick(2) else decl_stmts + stmts
    else:
        allst = decl_stmts + stmts
    header = [d[0] for d in pi_decls] + [d[0] for d in po_decls]
    ports_in_order = []
    hdr = list(header)
    if st.pick(2):
        hdr = [d[0] for d in po_decls] + [d[0] for d in pi_decls]
    if undriven:
        hdr.insert(st.pick(len(hdr) + 1), undriven[0][0])
    decl_names = dict(pi_decls + po_decls + undriven)
    for h in hdr:
        rng = decl_names[h]
        if rng is None:
            ports_in_order.append(h)
        else:
            step = 1 if rng[0] <= rng[1] else -1
            ports_in_order += [f'{h}[{i}]' for i in range(rng[0], rng[1] + step, step)]
    text = f'// generated\n{st.sp()}module{st.ws()}{modname}{st.sp()}({st.sp()}' + f'{st.sp()},{st.sp()}'.join(hdr) + f'{st.sp()}){st.sp()};\n' + \
           '\n'.join(f'{st.sp()}{s_}' for s_ in allst) + f'\nendmodule{st.ws()}\n'
    return text, dict(ports=ports_in_order, pi=pi_names, po=po_names, st=st_names, skipped=sorted(skip_gate), insts=insts, nphys=nphys,
                      net={k_: tname(v) for k_, v in net.items()}, bound_po=sorted(bound_po))


def render_bench(nl, seed):
    """bench text of the same netlist: every signal is a named fork; gates use the documented kind spellings of the netlist."""
    st = Style(seed)
    npi = nl['pi']
    net = {}
    for k in range(npi): net[f'i{k}'] = f'pi{k}'
    for k in range(len(nl['g'])): net[f'g{k}'] = [f'g{k}', f'N-{k}', f'{k}gat'][st.pick(3)]
    for k in range(len(nl['st'])): net[f's{k}'] = f'ff{k}'
    lines = []
    # outputs must be gate/state signals (a port is the fork of its signal); insert buffers where an input or an inverted output is observed
    po_names = []
    extra = []
    for k, src in enumerate(nl['po']):
        if src[0] == 'i' or src[0] == 'n' or net[src] in po_names:
            nm = f'po{k}'
            extra.append((nm, src))
            po_names.append(nm)
        else:
            po_names.append(net[src])
    qn_sig = {}
    for k in range(len(nl['st'])):
        if any(s == f'n{k}' for s in rm.readers(nl)):
            qn_sig[f'n{k}'] = f'ffn{k}'
    def ref(src):
        return qn_sig[src] if src[0] == 'n' else net[src]
    stm = []
    for k in range(npi): stm.append(f'INPUT({net[f"i{k}"]})' if st.pick(2) else f'input ( {net[f"i{k}"]} )')
    for nm in po_names: stm.append(f'OUTPUT({nm})' if st.pick(2) else f'output({nm})')
    body = []
    for k, g in enumerate(nl['g']):
        ops = [ref(p) for p in g['i'] if p is not None]
        if any(p is None for p in g['i']):
            return None           # open pins cannot be written in bench
        body.append(f'{net[f"g{k}"]} = {g["k"]}({", ".join(ops)})')
    for k, s in enumerate(nl['st']):
        if s['d'] is None:
            return None
        body.append(f'{net[f"s{k}"]} = {s["k"]}({ref(s["d"])})')
    for src, nm in qn_sig.items():
        body.append(f'{nm} = NOT({net["s" + src[1:]]})')
    for nm, src in extra:
        body.append(f'{nm} = BUFF({ref(src)})')
    for i in range(len(body) - 1, 0, -1):
        j = st.pick(i + 1); body[i], body[j] = body[j], body[i]
    text = '# generated\n' + '\n'.join(stm) + '\n' + '\n'.join(f'{b}   # c' if st.pick(4) == 0 else b for b in body) + '\n'
    return text, dict(pi=[net[f'i{k}'] for k in range(npi)], po=po_names, st=[net[f's{k}'] for k in range(len(nl['st']))])
