"""Deterministic large circuits (beyond what the random generator produces): long chains and hubs with huge fan-out.
Built through the public Node/Line API; the expected function is computed alongside in plain Python integers."""
from kyupy.circuit import Circuit, Node, Line

KINDS = ['inv', 'xor2', 'buf', 'nand2', 'xnor2']


def chain(n_cells, va, vb, mask):
    """inputs a, b; b runs through n_cells cells (every cell followed by a fork), some cells also read a. One output o.
    -> (circuit, expected bit vector at o)"""
    c = Circuit('chain')
    a = Node(c, 'a', 'input'); b_ = Node(c, 'b', 'input')
    c.io_nodes.append(a); c.io_nodes.append(b_)
    fa = Node(c, 'a'); Line(c, a, fa)
    prev = Node(c, 'b'); Line(c, b_, prev)
    val = vb
    for k in range(n_cells):
        kind = KINDS[k % len(KINDS)]
        g = Node(c, f'g{k}', kind)
        Line(c, prev, g)
        if kind in ('xor2', 'nand2', 'xnor2'):
            Line(c, fa, g)
        f = Node(c, f'n{k}')
        Line(c, g, f)
        prev = f
        val = {'inv': ~val, 'buf': val, 'xor2': val ^ va, 'nand2': ~(val & va), 'xnor2': ~(val ^ va)}[kind] & mask
    o = Node(c, 'o', 'output'); c.io_nodes.append(o); Line(c, prev, o)
    return c, val


def hub(fanout, va, vb, mask):
    """inputs a, b; x = xor(a, b) drives one fork with `fanout` readers (alternating buf / inv / and-with-a), each reader is observed.
    -> (circuit, [expected bit vector per output])"""
    c = Circuit('hub')
    a = Node(c, 'a', 'input'); b_ = Node(c, 'b', 'input')
    c.io_nodes.append(a); c.io_nodes.append(b_)
    fa = Node(c, 'a'); Line(c, a, fa)
    fb = Node(c, 'b'); Line(c, b_, fb)
    x = Node(c, 'x', 'xor2'); Line(c, fa, x); Line(c, fb, x)
    fx = Node(c, 'x'); Line(c, x, fx)
    xv = (va ^ vb) & mask
    exp = []
    for k in range(fanout):
        kind = ['buf', 'inv', 'and2'][k % 3]
        g = Node(c, f'r{k}', kind)
        Line(c, fx, g)
        if kind == 'and2':
            Line(c, fa, g)
        o = Node(c, f'o{k}', 'output'); c.io_nodes.append(o)
        Line(c, g, o)
        exp.append({'buf': xv, 'inv': ~xv & mask, 'and2': xv & va}[kind])
    return c, exp


def grid(width, depth, vals, mask):
    """`width` inputs; `depth` layers of `width` two-input cells; cell j of a layer reads signal j of the layer before and signal j+1 (mod width)
    of the layer 1 + j%3 layers before (so values stay alive for 1-3 layers and 2-3 * `width` of them are alive at any time; every signal goes
    through a fork). All last-layer signals are outputs.
    -> (circuit, [expected bit vector per output])"""
    c = Circuit('grid')
    prev = []
    for j in range(width):
        p = Node(c, f'i{j}', 'input'); c.io_nodes.append(p)
        f = Node(c, f'i{j}'); Line(c, p, f)
        prev.append(f)
    hist = [(prev, [v & mask for v in vals])]
    kinds = ['xor2', 'xnor2', 'xnor2', 'xor2', 'xor2']     # linear cells only: a wrong value anywhere reaches the outputs
    fn = {'xor2': lambda a, b: a ^ b, 'xnor2': lambda a, b: ~(a ^ b)}
    for l in range(depth):
        cur, cv = [], []
        for j in range(width):
            kind = kinds[(l * 5 + j) % len(kinds)]
            g = Node(c, f'g{l}_{j}', kind)
            f2, v2 = hist[-min(len(hist), 1 + j % 3)]
            Line(c, hist[-1][0][j], g); Line(c, f2[(j + 1) % width], g)
            f = Node(c, f'n{l}_{j}'); Line(c, g, f)
            cur.append(f)
            cv.append(fn[kind](hist[-1][1][j], v2[(j + 1) % width]) & mask)
        hist = hist[-2:] + [(cur, cv)]
    for j in range(width):
        o = Node(c, f'o{j}', 'output'); c.io_nodes.append(o)
        Line(c, hist[-1][0][j], o)
    return c, hist[-1][1]


def randnet(n_in, n_gates, n_out, window, seed, vals, mask):
    """irregular netlist: gate k reads two of the `window` most recent signals (chosen by an own LCG from `seed`), so fan-out, reconvergence and
    value lifetimes vary. Signals with one reader are wired directly, others through a fork. `n_out` gate signals plus up to 64 unread ones are
    outputs. -> (circuit, [expected bit vector per output])"""
    state = [seed * 2654435761 % (1 << 32) or 1]

    def rnd(n):
        state[0] = (state[0] * 6364136223846793005 + 1442695040888963407) % (1 << 64)
        return (state[0] >> 33) % n
    kinds = ['xor2', 'xnor2', 'xor2', 'nand2', 'xnor2', 'or2', 'xor2', 'and2', 'nor2']
    fn = {'xor2': lambda a, b: a ^ b, 'nand2': lambda a, b: ~(a & b), 'or2': lambda a, b: a | b,
          'xnor2': lambda a, b: ~(a ^ b), 'and2': lambda a, b: a & b, 'nor2': lambda a, b: ~(a | b)}
    c = Circuit('randnet')
    drv, val = [], []
    for j in range(n_in):
        p = Node(c, f'i{j}', 'input'); c.io_nodes.append(p)
        drv.append(p); val.append(vals[j] & mask)
    gates = []
    readers = [[] for _ in range(n_in + n_gates)]
    for k in range(n_gates):
        lo = max(0, len(drv) - window)
        a, b = lo + rnd(len(drv) - lo), lo + rnd(len(drv) - lo)
        kind = kinds[rnd(len(kinds))]
        g = Node(c, f'g{k}', kind)
        readers[a].append((g, 0)); readers[b].append((g, 1))
        drv.append(g); val.append(fn[kind](val[a], val[b]) & mask)
    outs = sorted({n_in + rnd(n_gates) for _ in range(n_out)})
    unread = [s for s in range(n_in, n_in + n_gates) if not readers[s] and s not in outs][:64]
    exp = []
    for s in sorted(outs + unread):
        o = Node(c, f'o{s}', 'output'); c.io_nodes.append(o)
        readers[s].append((o, 0)); exp.append(val[s])
    for s, rd in enumerate(readers):
        if not rd:
            continue
        if len(rd) == 1 and s >= n_in and s % 3:
            Line(c, drv[s], rd[0])
        else:
            f = Node(c, f'n{s}'); Line(c, drv[s], f)
            for r in rd:
                Line(c, f, r)
    return c, exp


def forkladder(depth, va, mask):
    """input a drives a chain of `depth` forks (fork -> fork -> ...); every fork also feeds one reader (buf / inv, alternating) that is observed.
    Forks and lines are created from the far end towards the input (sink first), the way a netlist written bottom-up would be.
    -> (circuit, [expected bit vector per output])"""
    c = Circuit('ladder')
    a = Node(c, 'a', 'input'); c.io_nodes.append(a)
    forks = [None] * depth
    for k in reversed(range(depth)):
        forks[k] = Node(c, f'f{k}')
    exp = []
    outs = []
    for k in reversed(range(depth)):
        g = Node(c, f'g{k}', 'inv' if k & 1 else 'buf')
        Line(c, forks[k], g)                      # the reader of this rung first ...
        if k + 1 < depth:
            Line(c, forks[k], forks[k + 1])       # ... then the line to the next fork
        o = Node(c, f'o{k}', 'output')
        Line(c, g, o)
        outs.append((k, o))
    Line(c, a, forks[0])
    for k, o in sorted(outs):
        c.io_nodes.append(o)
        exp.append((~va if k & 1 else va) & mask)
    return c, exp


def openchain(n_cells, va, mask, tap_every=0):
    """input a runs through n_cells two-input cells whose second pin is unconnected (reads constant 0): xor2 (= buf), xnor2 (= inv), or2 (= buf),
    nor2 (= inv). Every cell holds three references to the constant-0 slot. With tap_every > 0 every tap_every-th signal is observed too.
    -> (circuit, [expected bit vector per output], [depth of each output])"""
    c = Circuit('openchain')
    a = Node(c, 'a', 'input'); c.io_nodes.append(a)
    prev, val = a, va & mask
    kinds = ['xor2', 'xnor2', 'or2', 'xnor2', 'nor2', 'xor2', 'nor2']
    taps = []
    for k in range(n_cells):
        kind = kinds[k % len(kinds)]
        g = Node(c, f'g{k}', kind)
        Line(c, prev, g)
        if kind in ('xnor2', 'nor2'): val = ~val & mask
        prev = g
        if tap_every and k % tap_every == tap_every - 1 and k < n_cells - 1:
            f = Node(c, f'n{k}'); Line(c, g, f)
            taps.append((f, val, k + 1))
            prev = f
    outs, exp, depth = [], [], []
    for k, (f, v, d) in enumerate(taps):
        o = Node(c, f't{k}', 'output'); c.io_nodes.append(o); Line(c, f, o)
        exp.append(v); depth.append(d)
    o = Node(c, 'o', 'output'); c.io_nodes.append(o); Line(c, prev, o)
    exp.append(val); depth.append(n_cells)
    return c, exp, depth
