"""Core types shared by the runner and the property modules."""
import hashlib
import json


class Violation(Exception):
    """The property does not hold for this case."""


class HarnessError(Exception):
    """The machinery itself is broken (never reported as a violation)."""


class Obs:
    """What a property function observed on one case."""
    __slots__ = ('nontrivial', 'labels', 'checks')

    def __init__(self, nontrivial=False, labels=(), checks=1):
        self.nontrivial = bool(nontrivial)
        self.labels = tuple(labels)
        self.checks = checks


class Part:
    def __init__(self, name, prop, strategy=None, enumerate=None, quick=(2, 200), thorough=(16, 2000),
                 known_shapes=None, machine=None):
        self.name = name
        self.prop = prop                # prop(case) -> Obs, raises Violation
        self.strategy = strategy        # strategy(tier) -> hypothesis strategy
        self.enumerate = enumerate      # enumerate(tier) -> iterable of cases (finite, complete)
        self.budget = {'quick': quick, 'thorough': thorough}  # (workers, examples per worker)
        self.known_shapes = known_shapes or {}   # finding id -> predicate(case) -> bool (excluded by construction)
        self.machine = machine          # machine(tier, record) -> RuleBasedStateMachine class (stateful parts)


def case_hash(case):
    return hashlib.sha1(json.dumps(case, sort_keys=True, separators=(',', ':')).encode()).hexdigest()
