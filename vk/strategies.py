"""Hypothesis strategies for abstract netlists and stimuli. All cases are JSON-serialisable.

Abstract netlist
    nl = {'pi': n,                                  primary inputs i0..i<n-1>
          'st': [{'t': 'D'|'L', 'k': kind string, 'd': src|None, 'c': src|None}],
          'g':  [{'f': family, 'k': kind string, 'i': [src|None, ...]}],    in dependency order
          'po': [src, ...],
          'style': 'cells' | 'forks',               Verilog-like port cells / bench-like port forks
          'w': {src: 'D'|'F'|'C'|'L'},              wiring of every read signal: direct line, one fork, fork chain (2 deep), long chain (3 deep)
          'ports': [label, ...],                    order of ports in io_nodes ('i<k>' / 'o<k>')
          'rev': bool,                              create gate nodes in reverse order
          'strev': bool,                            create the state elements in reverse order (order in s_nodes)
          'peek': bool,                             the interface (s_nodes, stats) is read before the port list is put into its final order in place
          'pdeep': bool,                            style 'forks' with wiring 'L': the output port is the deepest fork of the chain, not the stem fork
          'frev': bool}                             create the forks of a chain and their fan-out lines before the forks and lines feeding them
    sources: 'i<k>', 's<k>' (true output of state element k), 'n<k>' (inverted output of flip-flop k), 'g<k>'.
"""
from hypothesis import strategies as st

from vk import refmodel as rm

SUFFIXES = ['', 'x1', 'X2', '_X1', 'X1_RVT', '_x4_lvt', 'b']
CASES = [str.lower, str.upper, str.capitalize]

FIXED_BASE = ['ao21', 'oa21', 'aoi21', 'oai21', 'ao22', 'oa22', 'aoi22', 'oai22',
              'ao211', 'oa211', 'aoi211', 'oai211', 'mux21']
BUF_SPELL = ['buf', 'BUF1', 'bufx2', 'nbuf', 'NBUFFX2_RVT', 'delln', 'DELLN1X2', 'Buf_X1']
INV_SPELL = ['inv', 'INV1', 'not', 'NOT1', 'ibuf', 'IBUFFX2', 'INVX1', 'Inv_x2', 'inv_x1']
CONST0_SPELL = ['__const0__', 'tiel', 'TIEL_RVT', '__CONST0__']
CONST1_SPELL = ['__const1__', 'tieh', 'TIEH_RVT', '__CONST1__']
DFF_SPELL = ['dff', 'DFF', 'DFFX1', 'sdff_x1', 'Dff', 'DFFARX1_RVT']
LATCH_SPELL = ['latch', 'LATCH', 'LATCHX1', 'dlatch_x1', 'Latch']

ALL_FAMILIES = list(rm.FAMILIES)


def spell(fam, pins, r):
    """A kind string that kyupy documents (sim.kind_prefixes) to denote family `fam` for the given pin
    connection pattern. r: non-negative int providing the choices."""
    case = CASES[r % 3]; r //= 3
    suf = SUFFIXES[r % len(SUFFIXES)]; r //= len(SUFFIXES)
    if fam == 'BUF':
        if pins[0] is None and r % 2: return CONST0_SPELL[(r // 2) % len(CONST0_SPELL)]
        return BUF_SPELL[(r // 2) % len(BUF_SPELL)]
    if fam == 'INV':
        if pins[0] is None and r % 2: return CONST1_SPELL[(r // 2) % len(CONST1_SPELL)]
        return INV_SPELL[(r // 2) % len(INV_SPELL)]
    if fam in rm.VARIADIC:
        n = rm.arity(fam, pins)
        base = fam.lower()
        if fam == 'OR' and n == 2 and r % 5 == 0:
            return case('isolor') + suf
        digit = str(n) if r % 2 else ''
        if digit == '' and suf[:1].isdigit(): suf = ''
        return case(base) + digit + suf
    return case(fam.lower()) + suf


def pick(r, avail):
    """Maps a raw integer to one of the available sources, biased to recent ones."""
    n = len(avail)
    if r & 1:
        return avail[n - 1 - ((r >> 1) % min(n, 3))]
    return avail[(r >> 1) % n]


DEFAULT_CFG = dict(max_pi=5, max_st=3, max_g=14, open_pins=True, open_outs=True, latches=True,
                   styles=('cells', 'forks'), families=None, min_g=0, clock_pins=True, po_taps=3, shift_regs=False)


@st.composite
def netlists(draw, **kw):
    cfg = dict(DEFAULT_CFG); cfg.update(kw)
    fams = cfg['families'] or ALL_FAMILIES
    npi = draw(st.integers(1, cfg['max_pi']))
    nst = draw(st.integers(0, cfg['max_st']))
    style = draw(st.sampled_from(cfg['styles']))
    raw_g = draw(st.lists(st.tuples(st.sampled_from(fams), st.integers(0, 1 << 20),
                                    st.tuples(*[st.integers(0, 1 << 16)] * 4), st.integers(0, 255)),
                          min_size=cfg['min_g'], max_size=cfg['max_g']))
    raw_st = draw(st.lists(st.tuples(st.integers(0, 1 << 16), st.integers(0, 1 << 16), st.integers(0, 255)),
                           min_size=nst, max_size=nst))
    raw_po = draw(st.lists(st.integers(0, 1 << 16), min_size=0, max_size=cfg['po_taps']))
    raw_w = draw(st.integers(0, (1 << 62)))
    rev = draw(st.sampled_from(list(range(64))))      # bit 0: gate nodes created in reverse order, bit 1: fork chains created downstream first, bit 2: state elements created last one first, bit 3: interface read before the ports get their final order, bit 4: bench-style output ports sit at the end of their fork chain, bit 5: a flip-flop created last moves to node index 0 when a placeholder node is removed
    port_perm = draw(st.integers(0, 1 << 30))
    nl = make_netlist(npi, style, raw_g, raw_st, raw_po, raw_w, rev, port_perm, cfg)
    # floating nets: an unconnected operand pin may instead hang on a fork that nothing drives (what the Verilog reader builds for a wire
    # without driver) - it reads 0 all the same. Only pins below the gate's arity, so that the primitive stays the same.
    if cfg.get('floating', True):
        flt = draw(st.sampled_from([0, 0, 0, 0, 0, 0, 1, 2, 3, 4]))
        if flt:
            nl['flt'] = flt         # 1: a fork of its own per pin, 2: one undriven fork shared by all such pins; 3, 4: the same, but the fork had a driver that was removed again (pin list [None])
    return nl


def make_netlist(npi, style, raw_g, raw_st, raw_po, raw_w, rev, port_perm, cfg):
    avail = [f'i{k}' for k in range(npi)]
    states = []
    for k, (rd, rc, fl) in enumerate(raw_st):
        latch = cfg['latches'] and fl % 4 == 0
        states.append(dict(t='L' if latch else 'D',
                           k=(LATCH_SPELL if latch else DFF_SPELL)[(fl >> 2) % 5], d=None, c=None))
        avail.append(f's{k}')
        if not latch and fl & 64:
            avail.append(f'n{k}')
    gates = []
    for k, (fam, rs, rp, fl) in enumerate(raw_g):
        if fam in rm.FIXED:
            n = rm.FIXED[fam]
        else:
            n = 2 + (fl % 3)
        pins = [pick(rp[j], avail) for j in range(n)]
        if cfg['open_pins'] and fl & 8:          # open some pins
            opens = (fl >> 4) & 15
            pins = [None if (opens >> j) & 1 else p for j, p in enumerate(pins)]
        if fam in rm.VARIADIC:
            while len(pins) > 2 and pins[-1] is None:
                pins.pop()                        # trailing open pins of a variadic gate do not exist
        gates.append(dict(f=fam, k=spell(fam, pins, rs), i=pins))
        avail.append(f'g{k}')
    for k, (rd, rc, fl) in enumerate(raw_st):
        every = [f'i{j}' for j in range(npi)] + [f's{j}' for j in range(len(states))] + \
                [f'g{j}' for j in range(len(gates))]
        if fl & 128 and fl & 32 and not cfg.get('need_d'):
            continue                               # state element without any input pin (pure pseudo input)
        states[k]['d'] = pick(rd, every)
        if cfg.get('shift_regs') and rd % 4 == 3 and len(states) >= 2:      # shift-register structure: the data pin hangs on another state element
            states[k]['d'] = f's{(k + 1 + (rd >> 2) % (len(states) - 1)) % len(states)}'
        if cfg['clock_pins'] and fl & 16:
            states[k]['c'] = every[rc % len(every)]
    nl = dict(pi=npi, st=states, g=gates, po=[], style=style, w={}, ports=[], rev=bool(rev & 1), frev=bool(rev & 2), strev=bool(rev & 4), peek=bool(rev & 8), pdeep=bool(rev & 16), movedff=bool(rev & 32))
    # outputs
    allsig = [s for s in avail]
    po = []
    for r in raw_po:
        po.append(pick(r, allsig))
    nl['po'] = po
    rd = rm.readers(nl)
    for k in range(len(gates)):
        if f'g{k}' not in rd and not (cfg['open_outs'] and (raw_g[k][3] & 4)):
            po.append(f'g{k}')
    if not po:
        po.append(allsig[-1])
    if style == 'forks':   # one port per signal, primary inputs cannot be outputs at the same time
        seen = set(); po2 = []
        for p in po:
            if p in seen or p[0] == 'i':
                continue
            seen.add(p); po2.append(p)
        if not po2:
            # need a driven signal: add a buffer on the last signal
            gates.append(dict(f='BUF', k='buf', i=[allsig[-1]]))
            po2.append(f'g{len(gates) - 1}')
        po = po2
    nl['po'] = po
    # wiring modes
    rd = rm.readers(nl)
    w = {}
    r = raw_w
    for s in sorted(rd):
        m = r % 5; r //= 5
        nread = len(rd[s])
        forced_fork = style == 'forks' and (s[0] == 'i' or s in po)
        if m == 0 and nread == 1 and not forced_fork:
            w[s] = 'D'
        elif m == 1 and nread >= 1:
            w[s] = 'C'
        elif m == 2 and nread >= 1:
            w[s] = 'L'
        else:
            w[s] = 'F'
    nl['w'] = w
    # port order
    ports = [f'i{k}' for k in range(npi)] + [f'o{k}' for k in range(len(po))]
    if port_perm % 3 == 0:
        x = port_perm // 3
        perm = []
        pool = list(ports)
        while pool:
            perm.append(pool.pop(x % len(pool))); x //= 7
        ports = perm
    nl['ports'] = ports
    return nl


def bitvecs(n, lanes):
    return st.lists(st.integers(0, (1 << lanes) - 1), min_size=n, max_size=n)


SIMS = st.one_of(st.integers(1, 20), st.sampled_from([1, 7, 8, 9, 15, 16, 17, 31, 32, 33, 63, 64, 65, 70]))


def codes(n, lanes, alphabet):
    """n rows of `lanes` codes drawn from alphabet (list of ints)."""
    return st.lists(st.lists(st.sampled_from(alphabet), min_size=lanes, max_size=lanes), min_size=n, max_size=n)


def widen(nl, n, r):
    """Appends n gates that read only primary inputs / state outputs (one wide level) and observes each at an own output.
    Used to get levels wider than one mock-GPU block (16 ops) and more than 16 ports."""
    srcs = [f'i{k}' for k in range(nl['pi'])] + [f's{k}' for k in range(len(nl['st']))]
    fams = ['BUF', 'INV', 'AND', 'NAND', 'OR', 'NOR', 'XOR', 'XNOR']
    for j in range(n):
        fam = fams[(r + j) % len(fams)]
        pins = [srcs[(r // 3 + j) % len(srcs)]] if fam in ('BUF', 'INV') else [srcs[(r // 3 + j) % len(srcs)], srcs[(r // 7 + 2 * j + 1) % len(srcs)]]
        nl['g'].append(dict(f=fam, k=fam.lower(), i=pins))
        src = f'g{len(nl["g"]) - 1}'
        nl['po'].append(src)
        nl['ports'].append(f'o{len(nl["po"]) - 1}')
        nl['w'][src] = 'F'
    for s_ in srcs:
        nl['w'].setdefault(s_, 'F')
        if nl['w'][s_] == 'D':
            nl['w'][s_] = 'F'
    return nl
