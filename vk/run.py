"""Runner: tier/seed handling, worker fan-out, evidence, replay, VIOLATION / KNOWN-FINDING protocol.

usage:  python -m vk.run <Cxx> <quick|thorough>
        python -m vk.run <Cxx> --replay <file.json>

A property module (vk/props/cxx.py) provides
    ID, RULE, ASSUMPTIONS
    PARTS = [Part(...)]           one or more independently generated sub-checks
Every Part has a name, a Hypothesis strategy factory (tier -> strategy of JSON-serialisable
cases) or an exhaustive enumerator, a property function prop(case) -> Obs and budgets.
"""
import contextlib
import hashlib
import importlib
import io
import json
import multiprocessing
import os
import sys
import time
import traceback

VERIF = os.path.dirname(os.path.dirname(os.path.abspath(__file__)))


from vk.core import Violation, HarnessError, Obs, Part, case_hash  # noqa


_KYUPY_DIR = None


def kyupy_dir():
    global _KYUPY_DIR
    if _KYUPY_DIR is None:
        with contextlib.redirect_stdout(io.StringIO()):
            import kyupy
        kyupy.log.logfile = open(os.devnull, 'w')
        _KYUPY_DIR = os.path.dirname(os.path.abspath(kyupy.__file__))
    return _KYUPY_DIR


def classify(e):
    """Exceptions raised from inside kyupy on an in-domain case are violations, exceptions raised by the harness
    itself are harness errors. Returns the exception to raise instead of e."""
    if isinstance(e, (Violation, HarnessError)):
        return e
    tb = traceback.extract_tb(e.__traceback__)
    kd = kyupy_dir()
    inner = [f for f in tb if os.path.abspath(f.filename).startswith(kd)]
    here = os.path.dirname(os.path.dirname(os.path.abspath(__file__)))
    # the innermost frame that belongs to kyupy or to this harness decides (third-party frames below it are skipped): an exception raised
    # by harness code that kyupy called back (callbacks, mock launchers) is a harness error, not kyupy's
    own = [f for f in tb if os.path.abspath(f.filename).startswith(kd) or os.path.abspath(f.filename).startswith(here + os.sep)]
    if inner and own and own[-1] is inner[-1]:
        f = inner[-1]
        return Violation(f'kyupy raised {type(e).__name__}: {str(e)[:200]} '
                         f'at {os.path.basename(f.filename)}:{f.lineno} ({f.name})')
    return HarnessError(f'{type(e).__name__}: {e}\n' + ''.join(traceback.format_exception(e)))


def call_prop(prop, case):
    try:
        obs = prop(case)
    except Exception as e:  # noqa
        raise classify(e) from e
    if obs is None:
        obs = Obs()
    return obs


class Stats:
    def __init__(self):
        self.evaluations = 0
        self.excluded = {}
        self.nontrivial = set()
        self.distinct = set()
        self.labels = {}
        self.samples = []
        self.checks = 0

    def record(self, case, obs, h=None):
        self.evaluations += 1
        self.checks += obs.checks
        h = h or case_hash(case)
        h = h[:16]
        self.distinct.add(h)
        if obs.nontrivial:
            if h not in self.nontrivial and len(self.samples) < 3:
                self.samples.append(case)
            self.nontrivial.add(h)
        for l in obs.labels:
            self.labels[l] = self.labels.get(l, 0) + 1

    def as_dict(self):
        return dict(evaluations=self.evaluations, excluded=self.excluded, nontrivial=sorted(self.nontrivial),
                    distinct=len(self.distinct), labels=self.labels, samples=self.samples, checks=self.checks)


def derive_seed(base, prop_id, part, worker):
    h = hashlib.sha256(f'{base}/{prop_id}/{part}/{worker}'.encode()).digest()
    return int.from_bytes(h[:4], 'big')


def _worker(args):
    prop_id, part_idx, tier, base_seed, widx, nex = args
    try:
        return _worker_inner(prop_id, part_idx, tier, base_seed, widx, nex)
    except HarnessError as e:
        return dict(error=str(e))
    except Exception as e:  # noqa
        return dict(error=''.join(traceback.format_exception(e)))


def _worker_inner(prop_id, part_idx, tier, base_seed, widx, nex):
    kyupy_dir()
    import hypothesis
    from hypothesis import given, settings, HealthCheck, Phase
    mod = importlib.import_module(f'vk.props.{prop_id.lower()}')
    part = mod.PARTS[part_idx]
    seed = derive_seed(base_seed, prop_id, part.name, widx)
    stats = Stats()
    failure = {}
    phases = [Phase.generate] if os.environ.get('VERIF_NOSHRINK') else [Phase.generate, Phase.shrink]
    sett = settings(max_examples=nex, database=None, deadline=None, derandomize=False,
                    report_multiple_bugs=False, suppress_health_check=list(HealthCheck), phases=phases,
                    stateful_step_count=int(os.environ.get('VERIF_STEPS', '40' if tier == 'quick' else '60')))

    if part.machine is not None:
        from hypothesis.stateful import run_state_machine_as_test

        def record(case, obs):
            stats.record(case, obs)

        def fail(case, detail):
            failure['case'] = case
            failure['detail'] = detail

        machine = part.machine(tier, record, fail)
        try:
            run_state_machine_as_test(hypothesis.seed(seed)(machine), settings=sett)
        except Violation as v:
            return dict(stats=stats.as_dict(), failure=dict(case=failure.get('case'), detail=str(v)))
        return dict(stats=stats.as_dict(), failure=None)

    @hypothesis.seed(seed)
    @sett
    @given(part.strategy(tier))
    def test(case):
        for fid, pred in part.known_shapes.items():
            if pred(case):
                stats.excluded[fid] = stats.excluded.get(fid, 0) + 1
                return
        try:
            obs = call_prop(part.prop, case)
        except Violation as v:
            failure['case'] = case
            failure['detail'] = str(v)
            raise
        stats.record(case, obs)

    try:
        test()
    except Violation:
        return dict(stats=stats.as_dict(), failure=failure)
    except Exception as e:  # noqa
        # Hypothesis could not reproduce a recorded violation when it ran the case again in the same process (the outcome depends on what ran
        # before - a cache, a leftover of an earlier call): the violation was observed against the real code and is reported with its case
        if failure.get('case') is not None and type(e).__name__ in ('FlakyFailure', 'Flaky', 'FlakyReplay'):
            failure['detail'] = str(failure.get('detail')) + ' [not reproduced when the case was run again in the same process: the outcome depends on what ran before]'
            return dict(stats=stats.as_dict(), failure=failure)
        raise
    return dict(stats=stats.as_dict(), failure=None)


def _enum_worker(args):
    prop_id, part_idx, tier, widx, nworkers = args
    try:
        kyupy_dir()
        mod = importlib.import_module(f'vk.props.{prop_id.lower()}')
        part = mod.PARTS[part_idx]
        stats = Stats()
        failures = []
        for i, case in enumerate(part.enumerate(tier)):
            if i % nworkers != widx:
                continue
            skip = False
            for fid, pred in part.known_shapes.items():
                if pred(case):
                    stats.excluded[fid] = stats.excluded.get(fid, 0) + 1
                    skip = True
            if skip:
                continue
            try:
                obs = call_prop(part.prop, case)
            except Violation as v:
                stats.evaluations += 1
                if len(failures) < 20:
                    failures.append(dict(case=case, detail=str(v)))
                continue
            stats.record(case, obs)
        return dict(stats=stats.as_dict(), failures=failures)
    except HarnessError as e:
        return dict(error=str(e))
    except Exception as e:  # noqa
        return dict(error=''.join(traceback.format_exception(e)))


def load_known():
    p = os.path.join(VERIF, 'known_findings.json')
    if not os.path.exists(p):
        return []
    with open(p) as f:
        return json.load(f)['findings']


def write_replay(prop_id, part, case, detail, seed):
    d = os.path.join(VERIF, 'replays', prop_id)
    os.makedirs(d, exist_ok=True)
    h = case_hash(case)[:12]
    path = os.path.join(d, f'{part}-{h}.json')
    with open(path, 'w') as f:
        json.dump(dict(property=prop_id, part=part, detail=detail, seed=seed, case=case), f, indent=1, sort_keys=True)
    return os.path.relpath(path, VERIF)


def find_part(mod, name):
    for p in mod.PARTS:
        if p.name == name:
            return p
    raise HarnessError(f'no part {name} in {mod.ID}')


def replay_file(mod, path):
    with open(path) as f:
        rec = json.load(f)
    part = find_part(mod, rec['part'])
    return part, rec


def main(argv):
    if len(argv) < 2:
        print(__doc__)
        return 2
    prop_id = argv[0].upper()
    kyupy_dir()
    mod = importlib.import_module(f'vk.props.{prop_id.lower()}')
    if argv[1] == '--replay':
        path = argv[2]
        part, rec = replay_file(mod, path)
        try:
            call_prop(part.prop, rec['case'])
        except Violation as v:
            print(f'replay fails: {v}')
            print(f'VIOLATION property={prop_id} replay={path}')
            return 1
        print('replay passes')
        return 0

    tier = argv[1]
    if tier not in ('quick', 'thorough'):
        print('tier must be quick or thorough')
        return 2
    base_seed = int(os.environ.get('VERIF_SEED', '1'))
    t0 = time.time()
    violations = []     # (part, case, detail)
    known_lines = []
    total = Stats()
    per_part = {}
    excluded = {}
    exhaustive_parts = []

    # 1. known findings: witnesses must still fail (else note), never affect the exit code
    known = [k for k in load_known() if k['property'] == prop_id]
    for k in known:
        if k['status'] != 'known':
            continue
        part, rec = replay_file(mod, os.path.join(VERIF, k['witness']))
        try:
            call_prop(part.prop, rec['case'])
            print(f'note: witness of known finding {k["id"]} no longer fails ({k["witness"]})')
        except Violation as v:
            known_lines.append(f'KNOWN-FINDING: property={prop_id} {k["id"]} {k["what"]} [{str(v)[:160]}]')

    # 2. regression cases (committed minimal reproductions of fixed / once-found failures)
    rdir = os.path.join(VERIF, 'regress', prop_id)
    nregress = 0
    known_witnesses = {os.path.normpath(k['witness']) for k in known if k['status'] == 'known'}
    if os.path.isdir(rdir):
        for fn in sorted(os.listdir(rdir)):
            if not fn.endswith('.json'):
                continue
            rel = os.path.normpath(os.path.join('regress', prop_id, fn))
            if rel in known_witnesses:
                continue
            part, rec = replay_file(mod, os.path.join(rdir, fn))
            nregress += 1
            try:
                call_prop(part.prop, rec['case'])
            except Violation as v:
                violations.append((part.name, rec['case'], f'regression case {rel}: {v}', rel))

    # 3. generated search / enumeration
    ctx = multiprocessing.get_context('fork')
    only = os.environ.get('VERIF_PART')
    scale = float(os.environ.get('VERIF_SCALE', '1'))
    for pi, part in enumerate(mod.PARTS):
        if only and part.name != only:
            continue
        workers, nex = part.budget[tier]
        nex = max(1, int(nex * scale))
        if os.environ.get('VERIF_WORKERS'):       # e.g. VERIF_WORKERS=1 for in-process runs (coverage measurement, debugging)
            workers = int(os.environ['VERIF_WORKERS'])
        if part.enumerate is not None:
            jobs = [(prop_id, pi, tier, w, workers) for w in range(workers)]
            fn = _enum_worker
        else:
            jobs = [(prop_id, pi, tier, base_seed, w, nex) for w in range(workers)]
            fn = _worker
        if workers == 1:
            results = [fn(jobs[0])]
        else:
            with ctx.Pool(workers) as pool:
                results = pool.map(fn, jobs)
        ps = Stats()
        nontriv = set()
        for r in results:
            if 'error' in r:
                print(f'HARNESS ERROR in {prop_id}/{part.name}:\n{r["error"]}', file=sys.stderr)
                return 2
            s = r['stats']
            ps.evaluations += s['evaluations']
            ps.checks += s['checks']
            nontriv.update(s['nontrivial'])
            for l, c in s['labels'].items():
                ps.labels[l] = ps.labels.get(l, 0) + c
                if l.startswith('excluded_known_'):
                    excluded[l[len('excluded_known_'):]] = excluded.get(l[len('excluded_known_'):], 0) + c
            for fid, c in s['excluded'].items():
                excluded[fid] = excluded.get(fid, 0) + c
            for c in s['samples']:
                if len(ps.samples) < 3:
                    ps.samples.append(c)
            fl = r.get('failures') or ([r['failure']] if r.get('failure') else [])
            for f in fl:
                violations.append((part.name, f['case'], f['detail'], None))
        per_part[part.name] = dict(evaluations=ps.evaluations, distinct_nontrivial=len(nontriv),
                                   labels=dict(sorted(ps.labels.items())), checks=ps.checks,
                                   exhaustive=part.enumerate is not None)
        if part.enumerate is not None:
            exhaustive_parts.append(part.name)
        total.evaluations += ps.evaluations
        total.checks += ps.checks
        total.nontrivial.update(f'{part.name}:{h}' for h in nontriv)
        for c in ps.samples[:2]:
            total.samples.append(dict(part=part.name, case=c))

    # 4. report
    for l in known_lines:
        print(l)
    seen = set()
    out_violations = []
    for pname, case, detail, rel in violations:
        path = rel or write_replay(prop_id, pname, case, detail, base_seed)
        if path in seen:
            continue
        seen.add(path)
        out_violations.append(path)
        print(f'violation detail [{pname}]: {detail[:600]}')
        print(f'VIOLATION property={prop_id} replay={path}')

    wall = time.time() - t0
    ev = dict(
        property_id=prop_id, tier=tier, seed=base_seed, level='exploration',
        coverage=dict(
            evaluations=total.evaluations,
            distinct_nontrivial=len(total.nontrivial),
            rule=mod.RULE,
            samples=total.samples[:6] or ['none'],
            exhaustive=bool(exhaustive_parts) and len(exhaustive_parts) == len(per_part),
            exhaustive_parts=exhaustive_parts,
            parts=per_part,
            oracle_checks=total.checks,
            regression_cases_replayed=nregress,
            excluded_known_shapes=excluded,
            known_findings=[k['id'] for k in known if k['status'] == 'known'],
        ),
        assumptions=list(mod.ASSUMPTIONS),
        wall_s=round(wall, 2),
        violations=len(out_violations),
    )
    evdir = os.environ.get('VERIF_EVIDENCE_DIR') or os.path.join(VERIF, 'evidence')
    os.makedirs(evdir, exist_ok=True)
    with open(os.path.join(evdir, f'{prop_id}.json'), 'w') as f:
        json.dump(ev, f, indent=1, sort_keys=True, default=str)
    print(f'{prop_id} {tier} seed={base_seed}: evaluations={total.evaluations} distinct_nontrivial={len(total.nontrivial)} '
          f'violations={len(out_violations)} wall={wall:.1f}s')
    for pn, pd in per_part.items():
        print(f'  part {pn}: evals={pd["evaluations"]} nontrivial={pd["distinct_nontrivial"]} labels={pd["labels"]}')
    return 1 if out_violations else 0


if __name__ == '__main__':
    try:
        rc = main(sys.argv[1:])
    except HarnessError as e:
        print(f'HARNESS ERROR: {e}', file=sys.stderr)
        rc = 2
    except Exception as e:  # noqa
        traceback.print_exc()
        rc = 2
    sys.exit(rc)
