"""Hand-written Boolean functions of standard-cell families as the vendor datasheets define them
(Nangate 45nm open cell library, Synopsys SAED 32/90nm EDK, GSC 180nm generic library). Independent of kyupy.

spec(cell_name) -> (family, {output_pin: f(inputs: dict pin->0/1) -> 0/1}) or None when the family is not covered.
Pin roles are recognised from the vendor pin names, so the same table serves all five built-in libraries.
"""
import re


def _and(*v): return int(all(v))
def _or(*v): return int(any(v))
def _xor(*v): return sum(v) % 2
def _not(v): return 1 - v


def _groups_nangate(n_str):
    """Nangate naming of AOI/OAI groups: digits give group sizes, groups are named by letters in *reverse* size order:
    AOI21: A (size 1), B1 B2 (size 2); AOI211: A, B (size 1 each), C1 C2; AOI221: A, B1 B2, C1 C2; AOI222: A1 A2, B1 B2, C1 C2."""
    sizes = sorted(int(ch) for ch in n_str)            # ascending: singles first
    groups = []
    for letter, sz in zip('ABCDEF', sizes):
        groups.append([letter] if sz == 1 else [f'{letter}{i}' for i in range(1, sz + 1)])
    return groups


def _groups_saed(n_str, prefix):
    """SAED naming: pins numbered consecutively A1.. (or IN1..), groups in the order of the digits: AO221: (A1 A2)(A3 A4)(A5)."""
    groups, k = [], 1
    for ch in n_str:
        groups.append([f'{prefix}{i}' for i in range(k, k + int(ch))]); k += int(ch)
    return groups


def _groups_gsc(n_str):
    """GSC naming: groups A, B with 0-based members: AOI21: (A0 A1)(B0); OAI33: (A0 A1 A2)(B0 B1 B2)."""
    groups = []
    for letter, ch in zip('ABCDEF', n_str):
        groups.append([f'{letter}{i}' for i in range(int(ch))])
    return groups


def _aoi(groups, kind):
    """kind: 'AO','OA','AOI','OAI'"""
    def f(i):
        if kind.startswith('AO'):
            r = _or(*[_and(*[i[p] for p in g]) for g in groups])
        else:
            r = _and(*[_or(*[i[p] for p in g]) for g in groups])
        return _not(r) if kind.endswith('I') else r
    return f


def spec(name, pins):
    """name: cell name; pins: (input pin names in order, output pin names in order)."""
    ins, outs = pins
    # --- simple gates -------------------------------------------------------------------------
    m = re.match(r'^(AND|NAND|OR|NOR|XOR|XNOR)(\d)(_X\d+|X\d+)(_[RLH]VT)?$', name)
    if m:
        fam, n = m[1], int(m[2])
        if len(ins) != n or len(outs) != 1: return ('arity-mismatch', None)
        base = {'AND': _and, 'NAND': _and, 'OR': _or, 'NOR': _or, 'XOR': _xor, 'XNOR': _xor}[fam]
        inv = fam in ('NAND', 'NOR', 'XNOR')
        return (f'{fam}{n}', {outs[0]: (lambda i, base=base, inv=inv: _not(base(*[i[p] for p in ins])) if inv else base(*[i[p] for p in ins]))})
    if re.match(r'^(BUF_X\d+|BUFX\d+|CLKBUF_X\d+|CLKBUFX\d+|NBUFFX\d+|AOBUFX\d+|DELLN\dX\d+)(_[RLH]VT)?$', name):
        if len(ins) != 1 or len(outs) != 1: return ('arity-mismatch', None)
        return ('BUF', {outs[0]: lambda i: i[ins[0]]})
    if re.match(r'^(INV_X\d+|INVX\d+|AOINVX\d+|IBUFFX\d+)(_[RLH]VT)?$', name):
        if len(ins) != 1 or len(outs) != 1: return ('arity-mismatch', None)
        return ('INV', {outs[0]: lambda i: _not(i[ins[0]])})
    if re.match(r'^(LOGIC0_X1|TIEL(_[RLH]VT)?)$', name):
        return ('CONST0', {outs[0]: lambda i: 0})
    if re.match(r'^(LOGIC1_X1|TIEH(_[RLH]VT)?)$', name):
        return ('CONST1', {outs[0]: lambda i: 1})
    # --- AO / OA / AOI / OAI ------------------------------------------------------------------
    m = re.match(r'^(AOI|OAI|AO|OA)(\d{2,3})(_X\d+|X\d+)(_[RLH]VT)?$', name)
    if m:
        kind, digits = m[1], m[2]
        if '_X' in m[3]:
            groups = _groups_nangate(digits) if len(set(digits)) > 1 or digits[0] == '1' else \
                [[f'{l}{i}' for i in range(1, int(d) + 1)] for l, d in zip('ABCDEF', digits)]
        elif ins and ins[0].startswith('IN'):
            groups = _groups_saed(digits, 'IN')
        elif ins and ins[0] == 'A0':
            groups = _groups_gsc(digits)
        else:
            groups = _groups_saed(digits, 'A')
        flat = [p for g in groups for p in g]
        if sorted(flat) != sorted(ins) or len(outs) != 1: return ('pin-mismatch', None)
        return (f'{kind}{digits}', {outs[0]: _aoi(groups, kind)})
    # --- multiplexers -------------------------------------------------------------------------
    if re.match(r'^(MUX2_X\d+|MX2X\d+|MUX21X\d+(_[RLH]VT)?)$', name):
        if len(ins) != 3 or len(outs) != 1: return ('arity-mismatch', None)
        sel = [p for p in ins if p.startswith('S')]
        dat = sorted(p for p in ins if not p.startswith('S'))
        if len(sel) != 1 or len(dat) != 2: return ('pin-mismatch', None)
        a, b, s = dat[0], dat[1], sel[0]      # by pin name: A/A1/IN1 is selected by S=0, B/A2/IN2 by S=1
        return ('MUX2', {outs[0]: lambda i: i[b] if i[s] else i[a]})
    if re.match(r'^MUX41X\d+(_[RLH]VT)?$', name):
        d = sorted(p for p in ins if not p.startswith('S'))
        if len(d) != 4 or 'S0' not in ins or 'S1' not in ins: return ('pin-mismatch', None)
        return ('MUX4', {outs[0]: lambda i: i[d[2 * i['S1'] + i['S0']]]})
    # --- adders -------------------------------------------------------------------------------
    if re.match(r'^(HA_X1|ADDHX1|HADDX\d+(_[RLH]VT)?)$', name):
        if len(ins) != 2 or len(outs) != 2: return ('arity-mismatch', None)
        sum_pin = [p for p in outs if p in ('S', 'SO')]
        car_pin = [p for p in outs if p in ('CO', 'C1')]
        if len(sum_pin) != 1 or len(car_pin) != 1: return ('pin-mismatch', None)
        return ('HA', {sum_pin[0]: lambda i: _xor(*[i[p] for p in ins]), car_pin[0]: lambda i: _and(*[i[p] for p in ins])})
    if re.match(r'^(FA_X1|ADDFX1|FADDX\d+(_[RLH]VT)?)$', name):
        if len(ins) != 3 or len(outs) != 2: return ('arity-mismatch', None)
        sum_pin = [p for p in outs if p in ('S', 'SO')]
        car_pin = [p for p in outs if p in ('CO', 'C1')]
        if len(sum_pin) != 1 or len(car_pin) != 1: return ('pin-mismatch', None)
        return ('FA', {sum_pin[0]: lambda i: _xor(*[i[p] for p in ins]),
                       car_pin[0]: lambda i: int(sum(i[p] for p in ins) >= 2)})
    # --- extras (not named in the property statement, checked as a bonus) -----------------------
    if re.match(r'^ISOLAND(AO)?X\d+(_[RLH]VT)?$', name):
        return ('ISOLAND', {outs[0]: lambda i: _and(i['D'], _not(i['ISO']))})
    if re.match(r'^ISOLOR(AO)?X\d+(_[RLH]VT)?$', name):
        return ('ISOLOR', {outs[0]: lambda i: _or(i['D'], i['ISO'])})
    return None


def expand_names(pattern):
    """Own brace expansion: 'AND2X{1,2,4}{,_LVT}' -> list of names (all alternatives of all brace groups)."""
    parts = re.split(r'(\{[^}]*\})', pattern)
    names = ['']
    for p in parts:
        if p.startswith('{'):
            alts = p[1:-1].split(',')
            names = [n + a for n in names for a in alts]
        else:
            names = [n + p for n in names]
    return names


def parse_lib_source(text):
    """Own reading of the library source text: returns {cell name: (inputs, outputs, body)}."""
    cells = {}
    for stmt in text.split(';'):
        stmt = stmt.strip()
        if not stmt:
            continue
        m = re.match(r'^(\S+)\s*(.*)$', stmt, flags=re.S)
        pattern, body = m[1], m[2]
        ins, outs = [], []
        mi = re.search(r'\binput\s*\(([^)]*)\)', body)
        mo = re.search(r'\boutput\s*\(([^)]*)\)', body)
        if mi: ins = [x.strip() for x in mi[1].split(',') if x.strip()]
        if mo: outs = [x.strip() for x in mo[1].split(',') if x.strip()]
        for name in expand_names(pattern):
            cells[name] = (ins, outs, body)
    return cells
