"""File-based entry points: the text of a case is written to a scratch file (plain or gzip, LF or CR LF line ends) and read back through the
library's load() function. The directory is private to the call and removed before returning."""
import gzip
import os
import shutil
import tempfile


def with_files(texts, suffix, gz, crlf, load):
    """writes texts[0], then texts[1], ... to one and the same path (each replacing the one before) and returns [load(path) after each write]"""
    d = tempfile.mkdtemp(prefix='vk_files_')
    try:
        path = os.path.join(d, 'case' + suffix + ('.gz' if gz else ''))
        out = []
        for t in texts:
            data = (t.replace('\n', '\r\n') if crlf else t).encode()
            if gz:
                with gzip.open(path, 'wb') as f:
                    f.write(data)
            else:
                with open(path, 'wb') as f:
                    f.write(data)
            out.append(load(path))
        return out
    finally:
        shutil.rmtree(d, ignore_errors=True)
