"""C18 - STIL patterns map scan data onto flip-flops by chain order and inversion."""
import numpy as np
from hypothesis import strategies as st

from vk.core import Violation, Obs, Part, HarnessError
from vk import refmodel as rm, strategies as S
from vk.build import build, st_name

ID = 'C18'
RULE = ('Part many: a fixed two-cell scan design with 4096..9000 patterns. Part patterns: Hypothesis-generated scan circuits (data inputs, a clock that reaches only clock pins, scan-in ports, outputs, DFF-kind flip-flops with '
        'next-state logic, optionally a latch next to them) x 1..3 scan chains partitioning the flip-flops in random order x inversion markers at '
        'random places (directly after scan-in, before scan-out, doubled) x cell names "top.ff.SI" or plain x signal groups _pi/_po in random port '
        'order plus distractor groups x 2..5 patterns in stuck-at style (load_unload + *_capture) or launch-on-capture style (load_unload + '
        '*_launch + *_capture, with and without P on the clock), values 0 1 N / L H X, line breaks inside value strings, Ann/Macro/W/C noise. '
        'The statements of a ScanChain block, the parameters of a Call and the top-level blocks come in generated order, optional ScanChain statements are left out. '
        'Oracle: expected tests / responses / tests_loc arrays computed from the generator model (row order = s_nodes; character j of a load/unload '
        'string belongs to the j-th cell counted from scan-out; load value XOR parity of markers between scan-in and the cell, unload value XOR '
        'parity between the cell and scan-out; LoC: own 4-valued evaluation of the next state), for any call order, repeated calls, pass-through filters, and for a second circuit (other port / flip-flop order) served by the same parse result. X and - compared as one class. non-trivial: a chain '
        'with >= 3 cells and a marker strictly inside it, >= 2 patterns; distinct by SHA-1. Half of the pattern cases go through load() of a scratch file (plain or .gz, LF or CR LF line ends) instead of parse().')
ASSUMPTIONS = ['rows the statement does not define are only required to be unknown/unassigned (outputs in tests, inputs in responses) or skipped '
               '(clock row and inputs of patterns without capture pulse in tests_loc)']

CHARCODE = {'0': 0, '1': 3, 'N': 2, 'L': 0, 'H': 3, 'X': 1, 'P': 4}


@st.composite
def cases(draw, tier):
    big = tier == 'thorough'
    nl = draw(S.netlists(max_g=12 if big else 6, max_pi=3, max_st=6, styles=('cells',), need_d=True, latches=False, open_pins=False,
                         clock_pins=False, po_taps=3))
    nst = len(nl['st'])
    if nst < 2:      # make sure there is something to chain
        for k in range(nst, 3):
            nl['st'].append(dict(t='D', k='DFF', d=f'i{k % nl["pi"]}', c=None))
    for s_ in nl['st']:
        s_['k'] = draw(st.sampled_from(['DFF', 'DFFX1', 'SDFF_X1', 'DFFARX1_RVT']))
    nst = len(nl['st'])
    nchains = draw(st.integers(1, min(3, nst)))
    ndata = nl['pi']
    nl['pi'] = ndata + 1 + nchains              # + clock + scan-in ports
    for s_ in nl['st']:
        s_['c'] = f'i{ndata}'
    nl['ports'] = [f'i{k}' for k in range(nl['pi'])] + [f'o{k}' for k in range(len(nl['po']))]
    nl['stnames'] = draw(st.one_of(st.just(0), st.integers(1, 1 << 24)))      # register names with capital-letter endings (s3SI, s0S, ...)
    perm = draw(st.permutations(list(range(nst))))
    cuts = sorted(draw(st.lists(st.integers(1, nst - 1), min_size=nchains - 1, max_size=nchains - 1, unique=True))) if nst > 1 else []
    if len(cuts) < nchains - 1:
        nchains = len(cuts) + 1
    bounds = [0] + cuts + [nst]
    chains = []
    for j in range(nchains):
        cells = list(perm[bounds[j]:bounds[j + 1]])
        marks = draw(st.lists(st.integers(0, 2), min_size=len(cells) + 1, max_size=len(cells) + 1))   # markers before cell k / after the last
        if draw(st.booleans()):
            marks = [m % 2 for m in marks]
        chains.append(dict(cells=cells, marks=marks, si=f'i{ndata + 1 + j}', so=f'o{j}' if j < len(nl['po']) else f'scan_out{j}',
                           dotted=draw(st.booleans())))
    latch = draw(st.sampled_from([False, False, True]))
    npat = draw(st.integers(2, 5))
    pats = []
    for _ in range(npat):
        style = draw(st.sampled_from(['sa', 'loc', 'loc', 'loc_noP']))
        loads = [''.join(draw(st.lists(st.sampled_from('0011N'), min_size=len(ch['cells']), max_size=len(ch['cells'])))) for ch in chains]
        unloads = [''.join(draw(st.lists(st.sampled_from('LLHHX'), min_size=len(ch['cells']), max_size=len(ch['cells'])))) for ch in chains]
        pi1 = draw(st.lists(st.sampled_from('0011N'), min_size=nl['pi'], max_size=nl['pi']))
        pi2 = draw(st.lists(st.sampled_from('0011N'), min_size=nl['pi'], max_size=nl['pi']))
        po = draw(st.lists(st.sampled_from('LHX'), min_size=len(nl['po']), max_size=len(nl['po'])))
        pats.append(dict(style=style, loads=loads, unloads=unloads, pi1=pi1, pi2=pi2, po=po, capP=draw(st.booleans()), launchP=draw(st.booleans())))
    return dict(nl=nl, ndata=ndata, chains=chains, pats=pats, latch=latch,
                pi_order=list(draw(st.permutations(list(range(nl['pi']))))), po_order=list(draw(st.permutations(list(range(len(nl['po'])))))),
                brk=draw(st.integers(0, 1 << 20)))


def pi_strings(pat, clk):
    """per-input characters of the launch (or only) call and of the capture call, with the clock pulse marks"""
    pi1 = list(pat['pi1']); pi2 = list(pat['pi2'])
    if pat['style'] == 'sa':
        if pat['capP']: pi2[clk] = 'P'
    else:
        if pat['style'] == 'loc' or pat.get('launchP'): pi1[clk] = 'P'
        if pat['capP'] or pat['style'] == 'loc': pi2[clk] = 'P'
    return pi1, pi2


def render(case):
    nl, chains = case['nl'], case['chains']
    clk = case['ndata']
    pi_names = [f'i{k}' for k in case['pi_order']]
    po_names = [f'o{k}' for k in case['po_order']]
    brk = [case['brk']]

    def val(s):      # long values may be broken across lines
        brk[0], k = divmod(brk[0], 3) if brk[0] else (0xfffff, 0)
        if k == 0 and len(s) > 2:
            return s[:len(s) // 2] + '\n' + s[len(s) // 2:]
        return s

    t = ['STIL 1.0 { Design 2005; }', 'Header {\n   Title "generated";\n   History {\n      Ann {* a { nested } b *}\n   }\n}',
         'Signals {\n' + ' '.join(f'"{n}" In;' for n in pi_names) + ' ' + ' '.join(f'"{n}" Out;' for n in po_names) + '\n}']
    grp = lambda names: "'" + ' + '.join(f'"{n}"' for n in names) + "'"
    groups = [f'   "_in" = {grp(sorted(pi_names))}; // #signals={len(pi_names)}', f'   "_pi" = {grp(pi_names)}; // order matters',
              f'   "all_inputs" = {grp(pi_names[::-1])};']
    if po_names:
        groups += [f'   "_po" = {grp(po_names)};', f'   "_out" = {grp(sorted(po_names))};']
    else:
        groups += ['   "_po" = \'"none"\';']
    if case['brk'] % 2:
        groups.reverse()
    t.append('SignalGroups {\n' + '\n'.join(groups) + '\n}')
    t.append('Timing {\n   WaveformTable "_default_WFT_" {\n      Period \'100ns\';\n      Waveforms { "all_inputs" { 0 { \'0ns\' D; } } }\n   }\n}')
    sc = ['ScanStructures {']
    for j, ch in enumerate(chains):
        cells = []
        for k, cidx in enumerate(ch['cells']):
            cells += ['!'] * ch['marks'][k]
            cells.append(f'"top.{st_name(nl, cidx)}.SI"' if ch['dotted'] else f'"{st_name(nl, cidx)}"')
        cells += ['!'] * ch['marks'][len(ch['cells'])]
        stmts = [f'ScanIn "{ch["si"]}";', f'ScanOut "{ch["so"]}";', f'ScanCells {" ".join(cells)};']
        opt = [f'ScanLength {len(ch["cells"])};', 'ScanInversion 0;', f'ScanMasterClock "i{clk}";']
        sel = (case['brk'] >> (3 * j)) % 8           # the grammar takes the statements of a chain in any order; the last three are optional
        stmts += [o for b, o in enumerate(opt) if (sel >> b) & 1]
        order = ((case['brk'] >> j) + 1) * 2654435761 % (1 << 32)
        if case['brk'] % 5:
            for i in range(len(stmts) - 1, 0, -1):
                order, r = divmod(order, i + 1)
                stmts[i], stmts[r] = stmts[r], stmts[i]
        sc.append(f'   ScanChain "{j + 1}" {{\n      ' + '\n      '.join(stmts) + '\n   }')
    sc.append('}')
    t.append('\n'.join(sc))
    t.append('PatternBurst "_burst_" {\n   PatList { "_pattern_" { } }\n}')
    t.append('PatternExec {\n   PatternBurst "_burst_";\n}')
    t.append('Procedures {\n   "load_unload" {\n      W "_default_WFT_";\n      Shift { V { "_si"=#; } }\n   }\n}')
    t.append('MacroDefs {\n   "test_setup" {\n      W "_default_WFT_";\n      V { "all_inputs"=\\r3 N ; }\n   }\n}')
    p = ['Pattern "_pattern_" {', '   W "_multiclock_capture_WFT_";', '   "precondition all Signals": C { "_pi"=\\r4 0 ; }', '   Macro "test_setup";',
         '   Ann {* chain_test *}']
    prev = None
    for i, pat in enumerate(case['pats']):
        params = []
        if prev is not None:
            params += [f'      "{ch["so"]}"={val(prev["unloads"][j])};' for j, ch in enumerate(chains)]
        params += [f'      "{ch["si"]}"={val(pat["loads"][j])};' for j, ch in enumerate(chains)]
        if (case['brk'] >> 3) % 3 == 0:      # parameters of a call in any order
            params = params[i % len(params):] + params[:i % len(params)]
        p.append(f'   "pattern {i}": Call "load_unload" {{\n' + '\n'.join(params) + ' }')
        pi1, pi2 = pi_strings(pat, clk)
        if pat['style'] == 'sa':
            s2 = ''.join(pi2[k] for k in case['pi_order'])
            if (case['brk'] >> 5) % 2:
                p.append(f'   Call "multiclock_capture" {{\n      "_po"={val("".join(pat["po"][k] for k in case["po_order"]))}; "_pi"={val(s2)}; }}')
            else:
                p.append(f'   Call "multiclock_capture" {{\n      "_pi"={val(s2)}; "_po"={val("".join(pat["po"][k] for k in case["po_order"]))}; }}')
        else:
            s1 = ''.join(pi1[k] for k in case['pi_order'])
            s2 = ''.join(pi2[k] for k in case['pi_order'])
            p.append(f'   Call "allclock_launch" {{\n      "_pi"={val(s1)}; }}')
            p.append(f'   Call "allclock_capture" {{\n      "_pi"={val(s2)}; "_po"={val("".join(pat["po"][k] for k in case["po_order"]))}; }}')
        if i % 2:
            p.append('   Ann {* fast_sequential *}')
        prev = pat
    p.append('   "end 0 unload": Call "load_unload" {\n' + '\n'.join(f'      "{ch["so"]}"={val(prev["unloads"][j])};' for j, ch in enumerate(chains)) + ' }')
    p.append('}')
    t.append('\n'.join(p))
    if (case['brk'] >> 7) % 4 == 0:          # top-level blocks in another order (the pattern block before the scan structures, ...)
        k = 1 + (case['brk'] >> 9) % (len(t) - 1)
        t = t[:1] + t[k:] + t[1:k]
    return '\n'.join(t) + '\n'


def ucls(a):
    a = np.array(a)
    a = a.copy()
    a[a == 2] = 1
    return a


def prop(case):
    from kyupy import stil
    from kyupy.circuit import Node
    nl, chains = case['nl'], case['chains']
    text = render(case)
    rejected_first = (case['brk'] >> 13) % 3 == 0
    if rejected_first:
        # history: an earlier parse in the same process that is rejected half-way (another layout of the same pattern set, cut off)
        sib = render(dict(case, brk=case['brk'] ^ 0x155))
        try:
            stil.parse(sib[:len(sib) * (2 + (case['brk'] >> 15) % 3) // 5] + '\n')
        except Exception:          # rejected; how is not the subject
            pass
    via = (case['brk'] >> 3) % 6            # 0-2: parse(text); 3: load(plain file); 4: load(.gz); 5: load(.gz) - and bit 7: CR LF line ends in the file
    if via >= 3:
        from vk.files import with_files
        sf = with_files([text], '.stil', via >= 4, bool((case['brk'] >> 7) & 1), stil.load)[0]
    else:
        sf = stil.parse(text)
    npat = len(case['pats'])
    clk = case['ndata']
    inner = [False]
    edited = [False]

    def one_circuit(nl_, tag, order):
        hold = (case['brk'] >> 11) % 3 == 0
        b = build(dict(nl_, holdph=True) if hold else nl_)
        c = b.c
        if case['latch']:       # a latch next to the scan flip-flops: it has a row in s_nodes but belongs to no chain
            Node(c, 'lat0', 'LATCH')
        n_ = phase(b, c, tag, order)
        if hold:
            # edit history between two assembling calls on the same parse result and the same circuit object: removing the placeholder
            # (node index 0) moves the spare flip-flop created last in front of the chain flip-flops; every row of s_nodes after the
            # ports shifts, the number of rows stays the same
            b.placeholder.remove()
            phase(b, c, tag + 'after a node removal moved a flip-flop to node index 0 (same circuit object, same parse result): ', (order + 1) % 4)
            edited[0] = True
        return n_

    def phase(b, c, tag, order):
        s_len = len(c.s_nodes)
        where = {id(n): i for i, n in enumerate(b.s_order())}         # one pass (s_pos is linear per call)
        pi_rows = [where[id(n)] for n in b.pi]
        po_rows = [where[id(n)] for n in b.po]
        st_rows = [where[id(n)] for n in b.st]
        # ---- expected --------------------------------------------------------------------------------
        exp_t = np.full((s_len, npat), 2)
        exp_r = np.full((s_len, npat), 2)
        exp_l = np.full((s_len, npat), -1)      # -1: not compared
        exp_lf = np.full((s_len, npat), -1)     # the same with both filters replacing unknown / unassigned values by 0
        fill = lambda v: 0 if v in (1, 2) else v
        for i, pat in enumerate(case['pats']):
            loaded = {}
            for j, ch in enumerate(chains):
                n = len(ch['cells'])
                pref = [0]
                for mk in ch['marks']:
                    pref.append(pref[-1] + mk)                 # pref[j] = number of markers before position j of the marks list
                for pos in range(n):               # position counted from scan-out
                    k = n - 1 - pos                # index in scan-in -> scan-out order
                    cell = ch['cells'][k]
                    inv_in = pref[k + 1] % 2                    # markers between scan-in and the cell
                    inv_out = (pref[-1] - pref[k + 1]) % 2      # markers between the cell and scan-out
                    v = CHARCODE[pat['loads'][j][pos]]
                    if v in (0, 3) and inv_in: v = 3 - v
                    loaded[cell] = v
                    exp_t[st_rows[cell], i] = v
                    u = CHARCODE[pat['unloads'][j][pos]]
                    if u in (0, 3) and inv_out: u = 3 - u
                    exp_r[st_rows[cell], i] = u
                if n >= 3 and any(ch['marks'][1:n]):
                    inner[0] = True
            lpi, cap_pi = pi_strings(pat, clk)
            for k in range(nl['pi']):
                exp_t[pi_rows[k], i] = CHARCODE[cap_pi[k]]
            for k in range(len(nl['po'])):
                exp_r[po_rows[k], i] = CHARCODE[pat['po'][k]]
            # launch-on-capture
            first_pi = lpi if pat['style'] != 'sa' else cap_pi
            pi_codes = [CHARCODE[x] for x in first_pi]
            st_codes = [loaded[k] for k in range(len(nl['st']))]
            sig = rm.evalmv(nl, pi_codes, st_codes)
            both_pulse = pat['style'] != 'sa' and 'P' in lpi and 'P' in cap_pi

            def trans(a, z):
                if a in (1, 2) or z in (1, 2): return 1
                iv, fv = (a >> 1) & 1, z & 1
                return (iv << 1) | fv | (4 if iv != fv else 0)
            sigf = rm.evalmv(nl, [fill(x) for x in pi_codes], [fill(x) for x in st_codes])
            for k in range(len(nl['st'])):
                nxt = rm.enc(sig[nl['st'][k]['d']]) if both_pulse else st_codes[k]
                exp_l[st_rows[k], i] = trans(st_codes[k], nxt)
                nxtf = rm.enc(sigf[nl['st'][k]['d']]) if both_pulse else st_codes[k]       # without both pulses the launch value is the (unfiltered) load
                exp_lf[st_rows[k], i] = trans(fill(st_codes[k]), fill(nxtf))
            if 'P' in cap_pi:
                for k in range(nl['pi']):
                    if first_pi[k] == 'P' or cap_pi[k] == 'P':
                        continue
                    exp_l[pi_rows[k], i] = trans(CHARCODE[first_pi[k]], CHARCODE[cap_pi[k]])
                    exp_lf[pi_rows[k], i] = trans(fill(CHARCODE[first_pi[k]]), fill(CHARCODE[cap_pi[k]]))

        # ---- compare ---------------------------------------------------------------------------------
        def cmp(name, got, exp):
            got = np.array(got)
            if got.shape != (s_len, npat):
                raise Violation(f'{tag}{name}: shape {got.shape}, expected ({s_len} ports+state elements in s_nodes order, {npat} patterns)\n{text}')
            if 'filters' not in name:      # documented: tests / tests_loc leave the primary outputs unassigned, responses the primary inputs
                for r in (pi_rows if name.startswith('responses') else po_rows):
                    if any(int(x) != 2 for x in got[r]):
                        raise Violation(f'{tag}{name}: row {r} ({c.s_nodes[r].name}) = {got[r].tolist()}, documented as left unassigned (2)\n{text}')
            for r in range(s_len):
                for i in range(npat):
                    e = exp[r, i]
                    if e < 0:
                        continue
                    g = int(got[r, i])
                    if (1 if g == 2 else g) != (1 if e == 2 else e):
                        raise Violation(f'{tag}{name}: row {r} ({c.s_nodes[r].name}) pattern {i} = {g}, expected {e}\nchains {chains}\n{text}')

        if order == 1:                     # any call order, repeated calls and pass-through filters give the same arrays
            cmp('responses (called first)', sf.responses(c), exp_r)
            cmp('tests_loc (called second)', sf.tests_loc(c, init_filter=lambda a: a, launch_filter=lambda a: a), exp_l)
            calls = []

            def zero_fill(a):               # the documented use of the filters: fill the patterns
                calls.append(np.array(a).shape)
                a = np.array(a)
                return np.where((a == 1) | (a == 2), 0, a).astype(np.uint8)
            cmp('tests_loc with filling filters', sf.tests_loc(c, init_filter=zero_fill, launch_filter=zero_fill), exp_lf)
            if calls != [(s_len, npat), (s_len, npat)]:
                raise Violation(f'{tag}tests_loc: filters called with arrays of shape {calls}, expected one call each with ({s_len}, {npat})')
        elif order == 2:
            cmp('tests_loc (called first)', sf.tests_loc(c), exp_l)
            cmp('tests (first call)', sf.tests(c), exp_t)
        cmp('tests', sf.tests(c), exp_t)
        cmp('responses', sf.responses(c), exp_r)
        cmp('tests_loc', sf.tests_loc(c), exp_l)
        if order == 3:
            cmp('tests (second call)', sf.tests(c), exp_t)
            cmp('responses (second call)', sf.responses(c), exp_r)
        return s_len

    s_len = one_circuit(nl, '', case['brk'] % 4)
    labels = []
    if case['brk'] % 3 == 0:
        # the same parse result applied to a second circuit: same netlist, ports and flip-flops created in another order
        nl2 = dict(nl, ports=list(reversed(nl['ports'])), strev=True, rev=not nl.get('rev'))
        one_circuit(nl2, 'second circuit with other port/state order: ', (case['brk'] // 3) % 4)
        labels.append('parse_result_used_for_two_circuits')
    if edited[0]: labels.append('circuit_edited_between_assembling_calls')
    if rejected_first: labels.append('after_a_rejected_parse')
    if inner[0]: labels.append('marker_inside_chain>=3')
    if len(chains) > 1: labels.append('several_chains')
    if any(p['style'] != 'sa' for p in case['pats']): labels.append('loc_patterns')
    if any(ch['dotted'] for ch in chains): labels.append('dotted_cell_names')
    if via >= 3: labels.append('loaded_from_' + ('gz_' if via >= 4 else '') + 'file' + ('_crlf' if (case['brk'] >> 7) & 1 else ''))
    return Obs(inner[0] and npat >= 2, labels, checks=3 * s_len * npat)


def enum_many(tier):
    """pattern sets far longer than the generated 2..5 patterns (assembly that works on the pattern axis in blocks)"""
    for npat in ([4200] if tier == 'quick' else [4096, 4097, 4200, 9000]):
        nl = dict(pi=3, st=[dict(t='D', k='DFF', d='g0', c='i1'), dict(t='D', k='DFFX1', d='s0', c='i1')],
                  g=[dict(f='XOR', k='xor2', i=['i0', 's1'])], po=['s1'], style='cells',
                  w={'i0': 'D', 'i1': 'F', 's1': 'F', 's0': 'D', 'g0': 'D'}, ports=['i0', 'i1', 'i2', 'o0'], rev=False)
        x = 0x51ed27 + npat
        pats = []
        for i in range(npat):
            ch = []
            for _ in range(12):
                x = (x * 6364136223846793005 + 1442695040888963407) % (1 << 64)
                ch.append((x >> 35) & 0xffff)
            pats.append(dict(style=['sa', 'loc', 'loc', 'loc_noP'][ch[0] % 4], loads=[''.join('0011N'[c % 5] for c in ch[1:3])],
                             unloads=[''.join('LLHHX'[c % 5] for c in ch[3:5])], pi1=['0011N'[c % 5] for c in ch[5:8]],
                             pi2=['0011N'[c % 5] for c in ch[8:11]], po=['LHX'[ch[11] % 3]], capP=bool(ch[0] & 4), launchP=bool(ch[0] & 8)))
        yield dict(nl=nl, ndata=1, chains=[dict(cells=[1, 0], marks=[0, 1, 0], si='i2', so='o0', dotted=False)], pats=pats, latch=False,
                   pi_order=[2, 0, 1], po_order=[0], brk=npat * 3 + 1)


def enum_huge(tier):
    """a design with more than 2^15 scan flip-flops (positions in s_nodes beyond 32767) in one shuffled chain"""
    for nst in ([] if tier == 'quick' else [33000]):          # 35 s per case (the library's own look-ups are quadratic in the chain length): thorough tier only
        nl = dict(pi=3, st=[dict(t='D', k='DFF', d=('i0' if k == 0 else f's{k - 1}'), c='i1') for k in range(nst)], g=[], po=[f's{nst - 1}'], style='cells',
                  w={'i0': 'D', 'i1': 'F', **{f's{k}': 'D' for k in range(nst - 1)}, f's{nst - 1}': 'D'}, ports=['i0', 'i1', 'i2', 'o0'], rev=False)
        order = [(k * 7919) % nst for k in range(nst)]          # 7919 is prime and larger than neither size divides it: a permutation
        x = 0x9e3779b9 + nst
        pats = []
        for i in range(2):
            def chars(alpha, n):
                nonlocal x
                out = []
                for _ in range(n):
                    x = (x * 6364136223846793005 + 1442695040888963407) % (1 << 64)
                    out.append(alpha[(x >> 40) % len(alpha)])
                return ''.join(out)
            pats.append(dict(style=['loc', 'sa'][i], loads=[chars('0011N', nst)], unloads=[chars('LLHHX', nst)], pi1=list(chars('01', 3)),
                             pi2=list(chars('01', 3)), po=[chars('LHX', 1)], capP=True, launchP=True))
        marks = [0] * (nst + 1)
        for k in (1, nst // 3, nst // 2, nst - 2, nst):
            marks[k] = 1
        yield dict(nl=nl, ndata=1, chains=[dict(cells=order, marks=marks, si='i2', so='o0', dotted=False)], pats=pats, latch=False,
                   pi_order=[1, 2, 0], po_order=[0], brk=nst * 3 + 1)


PARTS = [Part('huge', prop, enumerate=enum_huge, quick=(1, 0), thorough=(2, 0)),
         Part('many', prop, enumerate=enum_many, quick=(1, 0), thorough=(4, 0)),
         Part('patterns', prop, strategy=cases, quick=(8, 250), thorough=(16, 2500))]
