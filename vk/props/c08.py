"""C08 - signal-memory map and allocator never let live data overlap."""
import numpy as np
from hypothesis import strategies as st

from vk.core import Violation, Obs, Part
from vk import strategies as S, wave as W
from vk.build import build

ID = 'C08'
RULE = ('Part heap (model-based, histories): generated alloc/free histories of 1..80 steps on sim.Heap (sizes 1..64 biased to repeats so exact fit and '
        'split both occur; frees biased to chunks next to free chunks and to the last chunk so both coalescing branches and the tail trim run), '
        'interpreted against an interval model; after every step: returned region disjoint from all live ones, chunks tile [0, current_size), '
        'released is sorted and is exactly the non-live chunks, no two adjacent free chunks, no free chunk at the end, max_size = maximum end ever '
        'handed out. Part heap_machine: the same obligations driven by a Hypothesis RuleBasedStateMachine. Part map: generated netlists (sometimes with one port listed twice in the interface) x per-line '
        'capacity vectors x c_caps_min in {1,4} x {c_reuse} x {strip_forks}: live interval of every written signal recomputed in levels from ops / '
        'level_starts (stems by walking the circuit); signals with overlapping live intervals have disjoint regions, all regions inside [0, c_len), '
        'stripped branches alias their stem, output slots alias s_nodes[i].ins[0], inputs / captured lines / special slots live for ever. '
        'non-trivial: heap history with a two-sided coalescing free and a split; map with c_reuse and a region used by >= 2 signals. distinct by SHA-1. Floating nets (undriven forks on otherwise unconnected operand pins) occur in 2 cases of 5.')
ASSUMPTIONS = ['Heap internals (chunks, released, current_size, max_size) are inspected directly: the statement speaks about tiling, coalescing and the '
               'high-water mark, which are only observable there']


# ------------------------------------------------------------------------------------------ heap

HEAP_OP = st.one_of(
    st.tuples(st.just('a'), st.one_of(st.sampled_from([1, 1, 4, 4, 8, 16]), st.integers(1, 64))),
    st.tuples(st.just('f'), st.sampled_from([0, 0, 1, 2, 2, 2]), st.integers(0, 1000)),
    st.tuples(st.just('f'), st.sampled_from([0, 2]), st.integers(0, 1000)))
SIZES = st.one_of(st.sampled_from([1, 1, 4, 4, 8, 16]), st.integers(1, 64))


def heap_cases(tier):
    # a few allocations first (so that there is something to free in the middle), then a free-biased history
    return st.tuples(st.lists(SIZES, min_size=0, max_size=10),
                     st.lists(HEAP_OP, min_size=1, max_size=80 if tier == 'quick' else 160)) \
        .map(lambda t: dict(ops=[['a', x] for x in t[0]] + [list(x) for x in t[1]]))


class HeapChecker:
    def __init__(self):
        from kyupy.sim import Heap
        self.h = Heap()
        self.live = {}          # loc -> size (model)
        self.order = []         # live locs in allocation order
        self.high = 0
        self.flags = set()

    def free_neighbours(self, loc):
        """(previous chunk is free, next chunk is free) according to the model"""
        size = self.live[loc]
        starts = sorted(self.h.chunks)
        prev_free = any(s + self.h.chunks[s] == loc and s not in self.live for s in starts)
        next_free = (loc + size) in self.h.chunks and (loc + size) not in self.live
        return prev_free, next_free

    def alloc(self, size):
        had_bigger_free = any(self.h.chunks[l] > size for l in self.h.released)
        had_exact = any(self.h.chunks[l] == size for l in self.h.released)
        loc = self.h.alloc(size)
        loc = int(loc)
        if loc < 0:
            raise Violation(f'alloc({size}) returned negative location {loc}')
        for l, s in self.live.items():
            if loc < l + s and l < loc + size:
                raise Violation(f'alloc({size}) returned [{loc},{loc + size}) overlapping live region [{l},{l + s})')
        self.live[loc] = size
        self.order.append(loc)
        self.high = max(self.high, loc + size)
        if had_exact: self.flags.add('exact_fit')
        elif had_bigger_free: self.flags.add('split')
        self.invariant(f'after alloc({size}) -> {loc}')
        return loc

    def free(self, loc):
        pf, nf = self.free_neighbours(loc)
        last = loc + self.live[loc] == self.h.current_size
        self.h.free(loc)
        del self.live[loc]
        self.order.remove(loc)
        if pf and nf: self.flags.add('two_sided_merge')
        elif pf: self.flags.add('merge_prev')
        elif nf: self.flags.add('merge_next')
        if last: self.flags.add('tail_trim')
        self.invariant(f'after free({loc})')

    def invariant(self, when):
        h = self.h
        pos = 0
        prev_free = False
        chunks = sorted((int(k), int(v)) for k, v in h.chunks.items())
        released = [int(x) for x in h.released]
        if released != sorted(released) or len(set(released)) != len(released):
            raise Violation(f'{when}: released list {released} is not sorted/unique')
        for loc, size in chunks:
            if loc != pos or size <= 0:
                raise Violation(f'{when}: chunks {chunks} do not tile [0, {h.current_size}) (gap/overlap at {pos})')
            pos += size
            is_free = loc not in self.live
            if not is_free and self.live[loc] != size:
                raise Violation(f'{when}: live chunk {loc} has size {size}, allocated {self.live[loc]}')
            if is_free and loc not in released:
                raise Violation(f'{when}: chunk {loc} is neither live nor released')
            if is_free and prev_free:
                raise Violation(f'{when}: adjacent free chunks not coalesced at {loc}: {chunks} released {released}')
            prev_free = is_free
        if pos != h.current_size:
            raise Violation(f'{when}: chunks end at {pos}, current_size = {h.current_size}')
        if prev_free:
            raise Violation(f'{when}: free chunk at the end of the managed range: {chunks}')
        for r in released:
            if r in self.live or r not in h.chunks:
                raise Violation(f'{when}: released entry {r} is live or not a chunk')
        for l in self.live:
            if l not in h.chunks:
                raise Violation(f'{when}: live region {l} missing from chunks')
        if h.max_size != self.high:
            raise Violation(f'{when}: max_size = {h.max_size}, true high-water mark = {self.high}')
        if h.current_size > h.max_size:
            raise Violation(f'{when}: current_size {h.current_size} > max_size {h.max_size}')

    def pick(self, mode, r):
        if not self.order:
            return None
        if mode == 1:
            return max(self.order)
        if mode == 2:
            cand = [l for l in self.order if any(self.free_neighbours(l))]
            if cand:
                return cand[r % len(cand)]
        return self.order[r % len(self.order)]


def prop_heap(case):
    hc = HeapChecker()
    nfree = 0
    for op in case['ops']:
        if op[0] == 'a':
            hc.alloc(op[1])
        else:
            loc = hc.pick(op[1], op[2])
            if loc is not None:
                hc.free(loc); nfree += 1
    return Obs('two_sided_merge' in hc.flags and 'split' in hc.flags, sorted(hc.flags), checks=len(case['ops']))


def heap_machine(tier, record, fail):
    from hypothesis.stateful import RuleBasedStateMachine, rule, precondition

    class HeapMachine(RuleBasedStateMachine):
        def __init__(self):
            super().__init__()
            self.hc = HeapChecker()
            self.hist = []

        def _guard(self, f, *a):
            try:
                f(*a)
            except Exception as e:  # noqa
                from vk.run import classify
                v = classify(e)
                if isinstance(v, Violation):
                    fail(dict(ops=self.hist), str(v))
                raise v from e

        @rule(size=st.one_of(st.sampled_from([1, 4, 4, 8]), st.integers(1, 64)))
        def alloc(self, size):
            self.hist.append(['a', size])
            self._guard(self.hc.alloc, size)

        @precondition(lambda self: len(self.hc.order) > 0)
        @rule(mode=st.integers(0, 2), r=st.integers(0, 1000))
        def free(self, mode, r):
            self.hist.append(['f', mode, r])
            self._guard(self.hc.free, self.hc.pick(mode, r))

        def teardown(self):
            if self.hist:
                record(dict(ops=self.hist), Obs('two_sided_merge' in self.hc.flags and 'split' in self.hc.flags, sorted(self.hc.flags),
                                                checks=len(self.hist)))

    return HeapMachine


# ------------------------------------------------------------------------------------------- map

@st.composite
def map_cases(draw, tier):
    big = tier == 'thorough'
    large = draw(st.integers(0, 19)) == 0
    nl = draw(S.netlists(max_g=(400 if big else 150) if large else (30 if big else 14), min_g=100 if large else 0, max_pi=5, max_st=3, need_d=False))
    return dict(nl=nl, caps=draw(st.one_of(st.sampled_from([1, 4, 16]), st.lists(st.sampled_from([1, 2, 4, 4, 8, 12, 16, 32]), min_size=3, max_size=12))),
                cmin=draw(st.sampled_from([1, 4])), c_reuse=draw(st.sampled_from([True, True, False])), strip_forks=draw(st.booleans()),
                dup=draw(st.sampled_from([0, 0, 0, 1, 2, 3])))


def prop_map(case):
    from kyupy.sim import SimOps
    if 'big' in case:
        from vk import bigcirc
        if case.get('shape') == 'ladder':
            c, _ = bigcirc.forkladder(case['big'], 1, 1)
        elif case.get('shape') == 'rand':
            n_in = case['big'][0]
            c, _ = bigcirc.randnet(*case['big'], [1] * n_in, 1)
        elif case.get('shape') == 'grid':
            c, _ = bigcirc.grid(case['big'][0], case['big'][1], [1] * case['big'][0], 1)
        else:
            c, _ = bigcirc.chain(case['big'], 1, 1, 1)
        pi_ids = {id(n) for n in c.io_nodes if len(n.ins) == 0}
    else:
        b = build(case['nl'])
        c = b.c
        pi_ids = {id(n) for n in b.pi} | {id(n) for n in b.st}
        if case.get('dup') and b.po:        # a port listed twice in the interface (bench: the same signal in two OUTPUT statements) has two slots
            c.io_nodes.append(b.po[case['dup'] % len(b.po)])
    nlines = len(c.lines)
    caps = W.caps_for(nlines, case['caps'])
    s = SimOps(c, c_caps=caps, c_caps_min=case['cmin'], c_reuse=case['c_reuse'], strip_forks=case['strip_forks'])
    ops, c_locs, c_caps = np.array(s.ops), np.array(s.c_locs), np.array(s.c_caps)
    starts, stops = list(s.level_starts), list(s.level_stops)
    INF = 10 ** 9
    written = {}        # line -> level
    for L, (a, z) in enumerate(zip(starts, stops)):
        for op in ops[a:z]:
            if int(op[1]) < nlines:
                written[int(op[1])] = L
    pi_nodes = pi_ids

    def stem(idx):
        l = c.lines[idx]
        while idx not in written:
            drv = l.driver
            if drv.kind != '__fork__' or id(drv) in pi_nodes or not drv.ins or drv.ins[0] is None:
                return None
            l = drv.ins[0]; idx = l.index
        return idx

    last_read = {o: written[o] for o in written}
    for L, (a, z) in enumerate(zip(starts, stops)):
        for op in ops[a:z]:
            for idx in (int(x) for x in op[2:6]):
                if idx < nlines:
                    st_ = stem(idx)
                    if st_ is None:
                        raise Violation(f'operand line {idx} is never produced')
                    last_read[st_] = max(last_read[st_], L)
                    if c_locs[idx] != c_locs[st_] or c_caps[idx] != c_caps[st_]:
                        raise Violation(f'line {idx} (loc {c_locs[idx]}, cap {c_caps[idx]}) is not aliased to its stem {st_} '
                                        f'(loc {c_locs[st_]}, cap {c_caps[st_]})')
    s_nodes = c.s_nodes
    for i, n in enumerate(s_nodes):
        if len(n.ins) > 0 and n.ins[0] is not None:
            li = n.ins[0].index
            st_ = stem(li)
            if st_ is None:
                raise Violation(f'captured line {li} of {n.name} is never produced')
            last_read[st_] = INF
            for idx in (li, s.ppo_offset + i):
                if c_locs[idx] != c_locs[st_] or c_caps[idx] != c_caps[st_]:
                    raise Violation(f'output slot / captured line {idx} of {n.name} not aliased to the signal it stands for (line {st_})')
        else:
            if c_locs[s.ppo_offset + i] >= 0:
                raise Violation(f'{n.name} has no input but an output slot')
    # all stripped branches (also unread ones) alias their stem
    if case['strip_forks']:
        for l in c.lines:
            st_ = stem(l.index)
            if st_ is not None and (c_locs[l.index] != c_locs[st_] or c_caps[l.index] != c_caps[st_]):
                raise Violation(f'stripped branch line {l.index} not aliased to stem {st_}')
    regions = []        # (start, end, first level, last level, name)
    for o, L in written.items():
        want = max(case['cmin'], int(caps if isinstance(caps, int) else caps[o]))
        if c_caps[o] != want:
            raise Violation(f'line {o}: capacity {c_caps[o]}, requested max({case["cmin"]}, {want})')
        regions.append((int(c_locs[o]), int(c_locs[o] + c_caps[o]), L, last_read[o], f'line {o}'))
    for idx, name in ((s.zero_idx, 'zero'), (s.tmp_idx, 'tmp'), (s.tmp2_idx, 'tmp2')):
        if c_caps[idx] < case['cmin'] or c_locs[idx] < 0:
            raise Violation(f'special slot {name} not allocated')
        regions.append((int(c_locs[idx]), int(c_locs[idx] + c_caps[idx]), -1, INF, name))
    for i, n in enumerate(s_nodes):
        idx = s.ppi_offset + i
        reads_it = any(int(x) == idx for op in ops for x in op[2:6])
        if c_locs[idx] >= 0:
            regions.append((int(c_locs[idx]), int(c_locs[idx] + c_caps[idx]), -1, INF, f'input slot of {n.name}'))
            if c_caps[idx] < case['cmin']:
                raise Violation(f'input slot of {n.name} has capacity {c_caps[idx]}')
        elif reads_it:
            raise Violation(f'input slot of {n.name} is read but not allocated')
    shared = False
    for r in regions:
        if r[0] < 0 or r[1] > s.c_len:
            raise Violation(f'{r[4]}: region [{r[0]},{r[1]}) outside [0, c_len={s.c_len})')
    cells = {}                      # memory cell -> regions that contain it
    for r in regions:
        for x in range(r[0], r[1]):
            cells.setdefault(x, []).append(r)
    for x, rs in cells.items():
        if len(rs) < 2:
            continue
        shared = True
        rs.sort(key=lambda r: (r[2], r[3]))
        for r, q in zip(rs, rs[1:]):            # sorted by first level: any overlap in time shows between neighbours
            if q[2] <= r[3]:
                raise Violation(f'{r[4]} [{r[0]},{r[1]}) live in levels {r[2]}..{r[3]} overlaps {q[4]} [{q[0]},{q[1]}) live in levels {q[2]}..{q[3]}')
    labels = []
    if 'big' in case: labels.append('lines>65536' if nlines > 65536 else 'large_circuit')
    if case['c_reuse']: labels.append('c_reuse')
    if case['strip_forks']: labels.append('strip_forks')
    if shared: labels.append('region_shared_over_time')
    if not isinstance(case['caps'], int): labels.append('per_line_caps')
    if case.get('dup') and 'big' not in case: labels.append('port_listed_twice')
    return Obs(case['c_reuse'] and shared, labels, checks=len(regions))


def enum_bigmap(tier):
    yield dict(big=35000, caps=1, cmin=1, c_reuse=True, strip_forks=False)
    yield dict(big=35000, caps=4, cmin=4, c_reuse=True, strip_forks=True)
    yield dict(big=(24, 320), shape='grid', caps=1, cmin=1, c_reuse=True, strip_forks=False)
    yield dict(big=(8, 9000, 24, 60, 1), shape='rand', caps=[1, 2, 1, 4, 3], cmin=1, c_reuse=True, strip_forks=False)
    yield dict(big=1500, shape='ladder', caps=4, cmin=1, c_reuse=True, strip_forks=True)
    if tier == 'thorough':
        yield dict(big=70000, caps=1, cmin=1, c_reuse=True, strip_forks=True)
        yield dict(big=6000, caps=[4, 8, 4, 16], cmin=4, c_reuse=True, strip_forks=False)


PARTS = [Part('bigmap', prop_map, enumerate=enum_bigmap, quick=(2, 0), thorough=(4, 0)),
         Part('heap', prop_heap, strategy=heap_cases, quick=(4, 1500), thorough=(16, 30000)),
         Part('heap_machine', prop_heap, machine=heap_machine, quick=(2, 200), thorough=(8, 3000)),
         Part('map', prop_map, strategy=map_cases, quick=(8, 250), thorough=(16, 3000))]
