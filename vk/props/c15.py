"""C15 - logic-value encodings convert losslessly and follow the axis convention."""
import numpy as np
from hypothesis import strategies as st

from vk.core import Violation, Obs, Part
from vk.build import pack_bp

ID = 'C15'
RULE = ('Part bigbp: a few arrays of 2.1-16 million values through mv_to_bp / bp_to_mv (block-wise conversions). Part bp: mv arrays of ndim 1..4, values 0..7, pattern counts 1..40 -> mv_to_bp -> bp_to_mv round trip, padding lanes 0, shape '
        '(..., S, 3, ceil(P/8)), agreement with an own packer. Part strings: k strings / value lists over the alphabet 0 1 X - R F P N and '
        'every documented alias -> mvarray/bparray (shape (S, k): patterns last), mv_str renders the documented characters and parses back; '
        'the same arguments parse to the same values again after the first result was edited in place. '
        'Part bits: integer arrays of every dtype u/i 8..64, ndim 1..3 -> unpackbits/packbits inverse, bit i = (x >> i) & 1, padding/truncation '
        'as documented, popcount. non-trivial: pattern count not a multiple of 8, or ndim >= 3, or dtype wider than 8 bits, or an alias '
        'character used; distinct by SHA-1 of the case. Vectors given item by item arrive as list, tuple, generator or iterator (interpret() documents \'Iterable\').')
ASSUMPTIONS = ['little-endian host (unpackbits views the bytes of the array); for byte-swapped dtypes only the pack/unpack inversion is checked',
               'mvarray with k>=2 vectors of length S>=2 (otherwise the result rank is ambiguous by construction of the function)']

CHARS = '0X-1PRFN'
ALIASES = {0: ['0', 'L', 'l', 0, False], 3: ['1', 'H', 'h', 1, True], 2: ['-', 'Z', 'z', None],
           5: ['R', 'r', '/'], 6: ['F', 'f', '\\'], 4: ['P', 'p', '^'], 7: ['N', 'n', 'v'], 1: ['X', 'x', '?', 'U']}


@st.composite
def bp_cases(draw, tier):
    ndim = draw(st.integers(1, 4))
    pats = draw(st.one_of(st.integers(1, 40), st.sampled_from([0, 1, 7, 8, 9, 15, 16, 17, 24, 33, 255, 256, 257])))      # also no pattern at all
    lead = draw(st.lists(st.integers(1, 3), min_size=max(0, ndim - 2), max_size=max(0, ndim - 2)))
    sigs = draw(st.sampled_from([0, 1, 2, 3, 4, 5, 6]))
    shape = ([sigs] if ndim == 1 else lead + [sigs, pats])
    n = int(np.prod(shape))
    vals = draw(st.lists(st.integers(0, 7), min_size=n, max_size=n)) if n <= 2000 else \
        [(x * 5 + i) % 8 for i, x in enumerate(draw(st.lists(st.integers(0, 7), min_size=64, max_size=64)) * (n // 64 + 1))][:n]
    return dict(shape=shape, vals=vals, layout=draw(st.sampled_from(['C', 'C', 'F', 'strided'])))


def prop_bp(case):
    from kyupy import logic
    a = np.array(case['vals'], dtype=np.uint8).reshape(case['shape'])
    if case.get('layout') == 'F':
        a = np.asfortranarray(a)
    elif case.get('layout') == 'strided':          # a non-contiguous view of a larger array
        big = np.zeros(tuple(2 * d for d in a.shape), dtype=np.uint8) + 7
        big[tuple(slice(None, None, 2) for _ in a.shape)] = a
        a = big[tuple(slice(None, None, 2) for _ in a.shape)]
    a0 = a.copy()
    bp = logic.mv_to_bp(a)
    a2 = a if a.ndim > 1 else a[:, np.newaxis]
    P = a2.shape[-1]
    want = a2.shape[:-1] + (3, (P + 7) // 8)
    if bp.shape != want:
        raise Violation(f'mv_to_bp shape {bp.shape}, expected {want} (signals second-to-last of the mv array, patterns packed last)')
    if bp.dtype != np.uint8:
        raise Violation(f'mv_to_bp dtype {bp.dtype}')
    if not np.array_equal(bp, pack_bp(a2)):
        raise Violation('mv_to_bp differs from the documented bit-parallel layout')
    back = logic.bp_to_mv(bp)
    if back.shape != a2.shape[:-1] + (8 * ((P + 7) // 8),):
        raise Violation(f'bp_to_mv shape {back.shape}')
    if not np.array_equal(back[..., :P], a2):
        raise Violation('bp_to_mv(mv_to_bp(a)) != a')
    if np.any(back[..., P:] != 0):
        raise Violation('padding lanes are not 0')
    if not np.array_equal(a, a0):
        raise Violation('mv_to_bp modified its argument')
    return Obs(P % 8 != 0 or a.ndim >= 3, [f'ndim{a.ndim}', 'P%8!=0' if P % 8 else 'P%8==0', 'layout_' + case.get('layout', 'C')])


@st.composite
def str_cases(draw, tier):
    k = draw(st.integers(1, 6))
    S = draw(st.integers(2, 12))
    codes = draw(st.lists(st.lists(st.integers(0, 7), min_size=S, max_size=S), min_size=k, max_size=k))
    sel = draw(st.lists(st.integers(0, 4), min_size=k * S, max_size=k * S))
    aslist = draw(st.lists(st.booleans(), min_size=k, max_size=k))
    delim = draw(st.sampled_from(['\n', ',', ' ', ';', ', ', '\r\n', ' | ', '::']))      # mv_str(delim=...) takes any string
    kinds = draw(st.lists(st.sampled_from([0, 0, 0, 1, 2, 3]), min_size=k, max_size=k))       # container of a vector given item by item: list, tuple, generator, iterator
    return dict(codes=codes, sel=sel, aslist=aslist, delim=delim, kinds=kinds)


def prop_str(case):
    from kyupy import logic
    codes = case['codes']
    k, S = len(codes), len(codes[0])
    vecs = []
    alias_used = False
    for p in range(k):
        items = []
        for s in range(S):
            al = ALIASES[codes[p][s]]
            items.append(al[case['sel'][p * S + s] % len(al)])
        if case['aslist'][p] or not all(isinstance(x, str) for x in items):
            vecs.append(items)
        else:
            vecs.append(''.join(items))
        alias_used |= any(not (isinstance(x, str) and x in CHARS) for x in items)
    exp = np.array(codes, dtype=np.uint8).T       # (S, k): patterns on the last axis
    kinds = case.get('kinds', [0] * k)
    base = vecs

    class Fresh:                                  # interpret() documents 'Iterable': lists given as tuples, generators or iterators (made anew for every call)
        def __iter__(self):
            return iter([v if isinstance(v, str) or kinds[p] == 0 else tuple(v) if kinds[p] == 1 else (x for x in v) if kinds[p] == 2 else iter(v)
                         for p, v in enumerate(base)])

        def __repr__(self):
            return repr([v if isinstance(v, str) or kinds[p] == 0 else ('tuple', 'generator', 'iterator')[kinds[p] - 1] + repr(v) for p, v in enumerate(base)])
    vecs = Fresh()
    lazy = any(kinds[p] >= 2 and not isinstance(v, str) for p, v in enumerate(base))
    mva = logic.mvarray(*vecs)
    if k == 1:
        exp1 = exp[:, 0]
        if mva.shape != exp1.shape or not np.array_equal(mva, exp1):
            raise Violation(f'mvarray of one vector {vecs!r}: got {mva.tolist()} expected {exp1.tolist()}')
    else:
        if mva.shape != exp.shape:
            raise Violation(f'mvarray of {k} vectors of length {S}: shape {mva.shape}, expected {exp.shape}')
        if not np.array_equal(mva, exp):
            raise Violation(f'mvarray{vecs!r} = {mva.tolist()} expected {exp.tolist()}')
    if mva.dtype != np.uint8:
        raise Violation(f'mvarray dtype {mva.dtype}')
    bpa = logic.bparray(*vecs)
    if not np.array_equal(bpa, logic.mv_to_bp(mva)):
        raise Violation('bparray != mv_to_bp(mvarray)')
    if not np.array_equal(bpa, pack_bp(exp if k > 1 else exp[:, :1])):
        raise Violation('bparray differs from the documented layout')
    # rendering
    txt = logic.mv_str(mva, delim=case['delim'])
    if k == 1:
        want = ''.join(CHARS[c] for c in codes[0])
    else:
        want = case['delim'].join(''.join(CHARS[c] for c in codes[p]) for p in range(k))
    if str(txt) != want:
        raise Violation(f'mv_str = {txt!r}, expected {want!r}')
    one = logic.mv_str(np.array(codes[0][0], dtype=np.uint8))           # a single value (zero-dimensional array) renders to its character
    if str(one) != CHARS[codes[0][0]]:
        raise Violation(f'mv_str of the zero-dimensional value {codes[0][0]} = {str(one)!r}, expected {CHARS[codes[0][0]]!r}')
    back = logic.mvarray(*str(txt).split(case['delim'])) if k > 1 else logic.mvarray(str(txt))
    if not np.array_equal(back, mva):
        raise Violation('mvarray(mv_str(a)) != a')
    # parsing is a function of the strings: what a caller did to an earlier result (plain ndarrays, edited in place for X-fill etc.) does not matter
    labels = [f'k{k}', 'alias' if alias_used else 'plain']
    for name, fn, first in (('mvarray', logic.mvarray, mva), ('bparray', logic.bparray, bpa)):
        if first.flags.writeable:
            keep = first.copy()
            first[...] = (first + 1 + case['sel'][0]) & 7 if name == 'mvarray' else ~first
            again = fn(*vecs)
            if not np.array_equal(again, keep):
                raise Violation(f'{name}{vecs!r} after an in-place edit of the array an earlier equal call returned: {again.tolist()}, '
                                f'expected {keep.tolist()}')
            labels.append('reparse_after_edit')
    if len(case['delim']) > 1: labels.append('multi_char_delim')
    if lazy: labels.append('lazy_iterable')
    return Obs(alias_used or k % 8 != 0, labels)


DTYPES = ['uint8', 'int8', 'uint16', 'int16', 'uint32', 'int32', 'uint64', 'int64']


@st.composite
def bits_cases(draw, tier):
    dt = draw(st.sampled_from(DTYPES))
    info = np.iinfo(dt)
    shape = draw(st.lists(st.sampled_from([0, 1, 2, 3, 4, 1, 2, 3, 4]), min_size=1, max_size=3))      # an axis may be empty
    n = int(np.prod(shape))
    vals = draw(st.lists(st.one_of(st.integers(int(info.min), int(info.max)),
                                   st.sampled_from([int(info.min), int(info.max), 0, 1, -1 if info.min < 0 else 2])),
                         min_size=n, max_size=n))
    width = draw(st.one_of(st.integers(1, 80), st.sampled_from([8, 16, 32, 64])))
    tdt = draw(st.sampled_from(DTYPES))
    bits = draw(st.lists(st.integers(0, 1), min_size=width * 2, max_size=width * 2))
    return dict(dtype=dt, shape=shape, vals=vals, width=width, tdt=tdt, bits=bits)


def prop_bits(case):
    from kyupy import logic, popcount
    dt = np.dtype(case['dtype'])
    a = np.array(case['vals'], dtype=dt).reshape(case['shape'])
    nb = 8 * dt.itemsize
    u = logic.unpackbits(a)
    if u.shape != a.shape + (nb,):
        raise Violation(f'unpackbits shape {u.shape}, expected {a.shape + (nb,)}')
    for idx in np.ndindex(*a.shape):
        x = int(a[idx]) & ((1 << nb) - 1)
        got = [int(b) for b in u[idx]]
        exp = [(x >> i) & 1 for i in range(nb)]
        if got != exp:
            raise Violation(f'unpackbits({int(a[idx])} as {dt}) = {got}, expected {exp}')
    r = logic.packbits(u, dt)
    if r.shape != a.shape or r.dtype != dt or not np.array_equal(r, a):
        raise Violation(f'packbits(unpackbits(a), {dt}) != a')
    # the same inversion for the non-native byte order of that dtype (only the inversion: the bit numbering of such items is not documented)
    if dt.itemsize > 1:
        sw = dt.newbyteorder('>' if dt.byteorder in ('=', '<', '|') and np.little_endian else '<')
        a_sw = a.astype(sw)
        r_sw = logic.packbits(logic.unpackbits(a_sw), sw)
        if r_sw.shape != a_sw.shape or not np.array_equal(r_sw, a_sw):
            raise Violation(f'packbits(unpackbits(a), {sw.str}) != a for {a_sw.ravel()[:4].tolist()} (got {np.asarray(r_sw).ravel()[:4].tolist()})')
    # padding / truncation: rows of `width` bits packed into tdt
    tdt = np.dtype(case['tdt'])
    tb = 8 * tdt.itemsize
    w = case['width']
    rows = np.array(case['bits'], dtype=np.uint8).reshape(2, w)
    pk = logic.packbits(rows.astype(bool) if w % 2 else rows, tdt)       # 0/1 integers or booleans
    if pk.shape != (2,) or pk.dtype != tdt:
        raise Violation(f'packbits shape/dtype {pk.shape} {pk.dtype}')
    for j in range(2):
        bl = [int(b) for b in rows[j][:tb]]
        if len(bl) < tb:
            pad = bl[-1] if tdt.kind == 'i' else 0
            bl = bl + [pad] * (tb - len(bl))
        val = sum(b << i for i, b in enumerate(bl))
        if tdt.kind == 'i' and val >= 1 << (tb - 1):
            val -= 1 << tb
        if int(pk[j]) != val:
            raise Violation(f'packbits({rows[j].tolist()}, {tdt}) = {int(pk[j])}, expected {val}')
    # popcount on the bytes
    by = a.view(np.uint8)
    pc = popcount(by)
    exp = sum(bin(int(x)).count('1') for x in by.ravel())
    if int(pc) != exp:
        raise Violation(f'popcount = {int(pc)}, expected {exp}')
    return Obs(dt.itemsize > 1 or w % 8 != 0, [case['dtype'], 'short' if w < tb else 'long' if w > tb else 'exact'])


def enum_bigbp(tier):
    """a few arrays beyond 2^21 / 2^24 values (conversions that work in blocks); values from an own arithmetic sequence"""
    yield dict(shape=[3, 800000])
    yield dict(shape=[5, 500003])
    yield dict(shape=[1, 2 ** 21 + 5])
    yield dict(pop=[4096, 4096])               # popcount of exactly 2^24 bytes
    yield dict(pop=[2 ** 24 + 1])
    if tier == 'thorough':
        yield dict(pop=[2, 4096, 4096])
        yield dict(pop=[3, 2 ** 20, 5])
        yield dict(pop=[16385, 16384], fill=255)        # more than 2^31 one bits (268 MB of packed data; thorough tier only)
        yield dict(shape=[2, 3, 400001])
        yield dict(shape=[7, 2 ** 22 - 3])
        yield dict(shape=[2 ** 21 + 1, 9])
        yield dict(shape=[1, 2 ** 24 + 13])


def prop_bigbp(case):
    from kyupy import logic
    if 'pop' in case:
        from kyupy import popcount
        shape = tuple(case['pop'])
        n = int(np.prod(shape))
        if 'fill' in case:
            a = np.full(shape, case['fill'], dtype=np.uint8)
        else:
            a = (((np.arange(n, dtype=np.uint64) * np.uint64(2654435761)) >> np.uint64(7)) % np.uint64(256)).astype(np.uint8).reshape(shape)
        ones = np.array([bin(v).count('1') for v in range(256)], dtype=np.int64)
        exp = int(np.bincount(a.ravel(), minlength=256) @ ones)
        got = int(popcount(a))
        if got != exp:
            raise Violation(f'popcount of a uint8 array of shape {shape} ({n} bytes) = {got}, it holds {exp} one bits')
        return Obs(True, ['popcount_>2^31_bits' if exp >= 1 << 31 else 'popcount_2^24' if n % (1 << 24) == 0 else 'popcount_large'], checks=1)
    shape = tuple(case['shape'])
    n = int(np.prod(shape))
    a = (((np.arange(n, dtype=np.uint64) * np.uint64(2654435761)) >> np.uint64(9)) % np.uint64(8)).astype(np.uint8).reshape(shape)
    bp = logic.mv_to_bp(a)
    P = shape[-1]
    want = shape[:-1] + (3, (P + 7) // 8)
    if bp.shape != want:
        raise Violation(f'mv_to_bp of shape {shape}: result shape {bp.shape}, expected {want}')
    if not np.array_equal(bp, pack_bp(a)):
        bad = np.argwhere(bp != pack_bp(a))[0]
        raise Violation(f'mv_to_bp of shape {shape} differs from the documented layout, first at {bad.tolist()}')
    back = logic.bp_to_mv(bp)
    if not np.array_equal(back[..., :P], a):
        bad = np.argwhere(back[..., :P] != a)
        raise Violation(f'bp_to_mv(mv_to_bp(a)) != a for shape {shape}: {len(bad)} values differ, first at {bad[0].tolist()}')
    if np.any(back[..., P:] != 0):
        raise Violation(f'padding lanes are not 0 for shape {shape}')
    return Obs(True, ['values>2^21' if n > 2 ** 21 else 'values<=2^21', 'P%8!=0' if P % 8 else 'P%8==0'], checks=n)


PARTS = [Part('bigbp', prop_bigbp, enumerate=enum_bigbp, quick=(3, 0), thorough=(4, 0)),
         Part('bp', prop_bp, strategy=bp_cases, quick=(2, 600), thorough=(8, 12000)),
         Part('strings', prop_str, strategy=str_cases, quick=(2, 500), thorough=(8, 10000)),
         Part('bits', prop_bits, strategy=bits_cases, quick=(2, 500), thorough=(8, 10000))]
