"""C04 - transitions stay inside the static-timing window and move rigidly with inputs."""
import numpy as np
from hypothesis import strategies as st

from vk.core import Violation, Obs, Part, HarnessError
from vk import refmodel as rm, strategies as S, wave as W
from vk.build import build
from vk.props.c03 import XOR_RICH

ID = 'C04'
RULE = ('Part stress: the same wide-gate stress netlists as in C13. Part window: As C03 (netlists, delays >= 0, capacities incl. overflowing ones, multi-transition inputs) with all times/delays on a dyadic grid (exact in '
        'float32). Oracles: (a) own static-timing window per line and lane (earliest/latest input transition plus min/max line delays, walked over '
        'the circuit graph): every finite timestamp lies inside, lines that cannot switch have none, s[4]/s[5] inside; (b) all input transitions '
        'shifted by a dyadic amount => every timestamp shifted by exactly that amount, same entry counts and overflow marks; (c) times and delays '
        'scaled by 2^k (k in -6..6, sometimes +-38..70) => timestamps scaled; (d) polarity-independent delays => strictly increasing timestamps in every waveform. '
        'A third of the cases runs the simulator under test with c_reuse=True: (a)-(c) are then checked on the captured rows (s[3..6], s[10]), the per-line checks on a second simulator. '
        'non-trivial: some line carries >= 2 finite timestamps and some gate has >= 2 switching operands; distinct by SHA-1 of the case.')
ASSUMPTIONS = ['per-line checks read a simulator with c_reuse off; a third of the cases additionally run with c_reuse and check the captured rows s[3..6, 10]', 'window oracle walks the Circuit object built through the public API']


@st.composite
def cases(draw, tier):
    big = tier == 'thorough'
    nl = draw(S.netlists(max_g=20 if big else 9, max_pi=4, max_st=2, families=XOR_RICH, need_d=True, clock_pins=False))
    lanes = draw(st.integers(1, 4 if big else 2))
    n = nl['pi'] + len(nl['st'])
    waves = draw(W.input_waves(n, lanes))
    pre = draw(st.one_of(st.none(), W.input_waves(n, lanes)))
    return dict(nl=nl, lanes=lanes, waves=waves, pre=pre, dpool=draw(W.DELAY_POOL), caps=draw(W.CAPS), f64=draw(st.booleans()),
                strip_forks=draw(st.booleans()), pol_indep=draw(st.booleans()), c_reuse=draw(st.sampled_from([False, False, True])),
                shift=draw(st.integers(-4096, 8192)), scale=draw(st.one_of(st.integers(-6, 6), st.integers(-6, 6), st.sampled_from([-70, -60, -44, -38, 38, 44, 60, 70]))), cuda=draw(st.sampled_from([False, False, False, True])),
                nds=draw(st.sampled_from([1, 1, 2, 3])), gsel=draw(st.integers(0, 2)), mix=draw(st.sampled_from([0, 0, 1, 2, 3, 5, 6])),
                zf=draw(st.booleans()))


def run(case, b, scale=1.0, shift=0.0):
    from kyupy.wave_sim import WaveSim, WaveSimCuda
    nlines = len(b.c.lines)
    nds = case.get('nds', 1)
    g = case.get('gsel', 0) % nds
    delays = W.delays_for(nlines, case['dpool'], dtype='float64' if case['f64'] else 'float32',
                          polarity_independent=case['pol_indep'], scale=scale, datasets=nds)
    if case.get('zf'):                  # ideal forks: no delay on any line that ends at a fork (the usual set-up with strip_forks)
        for l in b.c.lines:
            if l.reader.kind == '__fork__':
                delays[:, l.index] = 0
    klass = WaveSimCuda if case.get('cuda') else WaveSim
    sim = klass(b.c, delays, sims=case['lanes'], c_caps=W.caps_for(nlines, case['caps']), c_reuse=bool(case.get('c_reuse')),
                strip_forks=case['strip_forks'])
    lane_ds = [g] * case['lanes']
    if nds > 1:
        sim.simctl_int[1] = 0           # the seed argument of c_prop names the delay dataset for all simulations
        if case.get('mix'):             # ... or lane by lane: method 1 takes the dataset from simctl_int[0] of that lane
            for lane in range(case['lanes']):
                if (case['mix'] >> lane) & 1:
                    sim.simctl_int[1, lane] = 1
                    sim.simctl_int[0, lane] = (case['mix'] + lane) % nds
                    lane_ds[lane] = (case['mix'] + lane) % nds
    if case.get('pre'):         # an earlier, unrelated assignment on the same simulator object must leave no trace
        W.apply_inputs(sim, b, case['nl'], case['pre'])
        sim.c_prop(seed=g); sim.c_to_s()
    W.apply_inputs(sim, b, case['nl'], case['waves'], scale=scale, shift=shift)
    sim.c_prop(seed=g)
    sim.c_to_s()
    return sim, [delays[d:d + 1] for d in lane_ds]         # per lane: the window is that of the dataset selected for it


def sta(b, nl, delays, waves, lane, strip_forks):
    pi = {id(n): k for k, n in enumerate(b.pi)}
    stn = {id(n): nl['pi'] + k for k, n in enumerate(b.st)}
    memo = {}

    def win(line):
        if line.index in memo:
            return memo[line.index]
        drv = line.driver
        k = pi.get(id(drv), stn.get(id(drv)))
        if k is not None:
            ts = waves[k][lane]['t']
            r = (min(ts) / W.GRID, max(ts) / W.GRID) if ts else None
        elif drv.kind == '__fork__' and strip_forks and len(drv.ins) > 0 and drv.ins[0] is not None:
            r = win(drv.ins[0])
        else:
            E = L = None
            for l in drv.ins:
                if l is None:
                    continue
                w = win(l)
                if w is None:
                    continue
                d = delays[0, l.index]
                e, la = w[0] + float(d.min()), w[1] + float(d.max())
                E = e if E is None else min(E, e)
                L = la if L is None else max(L, la)
            r = None if E is None else (E, L)
        memo[line.index] = r
        return r

    return {l.index: win(l) for l in b.c.lines}


def prop(case):
    nl, lanes = case['nl'], case['lanes']
    b = build(nl)
    sim, delays = run(case, b)
    reuse = bool(case.get('c_reuse'))      # with memory re-use only the captured rows of `sim` are checked; the lines are read from a second simulator
    simw = run(dict(case, c_reuse=False), b)[0] if reuse else sim
    waves = [[W.line_wave(simw, l.index, lane) for lane in range(lanes)] for l in b.c.lines]
    busy = False
    multi_switch = False
    # (a) window, (d) monotonicity
    for lane in range(lanes):
        wins = sta(b, nl, delays[lane], case['waves'], lane, case['strip_forks'])
        for l in b.c.lines:
            w = waves[l.index][lane]
            if not w['ok']:
                raise Violation(f'line {l.index} lane {lane}: malformed waveform ({w["why"]})')
            win = wins[l.index]
            src = b.line_src[l.index]
            if win is None:
                if w['times']:
                    raise Violation(f'line {l.index} ({src}) lane {lane}: transitions {w["times"]} although no input in its cone switches')
            else:
                for t in w['times']:
                    if t < win[0] or t > win[1]:
                        raise Violation(f'line {l.index} ({src}) lane {lane}: transition at {t} outside the static timing window {win}')
            if case['pol_indep']:
                ts = w['times']
                if any(ts[i + 1] <= ts[i] for i in range(len(ts) - 1)):
                    raise Violation(f'line {l.index} ({src}) lane {lane}: timestamps {ts} not strictly increasing with polarity-independent delays')
            if len(w['times']) >= 2:
                busy = True
        for n in b.g:
            if sum(1 for l in n.ins if l is not None and waves[l.index][lane]['times']) >= 2:
                multi_switch = True
    rows = [b.s_pos(n) for n in b.po] + [b.s_pos(n) for k, n in enumerate(b.st) if nl['st'][k]['d'] is not None]
    rlines = [n.ins[0] for n in b.po] + [n.ins[0] for k, n in enumerate(b.st) if nl['st'][k]['d'] is not None]
    for lane in range(lanes):
        wins = sta(b, nl, delays[lane], case['waves'], lane, case['strip_forks'])
        for row, line in zip(rows, rlines):
            eat, lst = float(sim.s[4, row, lane]), float(sim.s[5, row, lane])
            win = wins[line.index]
            if win is None:
                if eat < W.TMAX or lst > W.TMIN:
                    raise Violation(f's row {row} lane {lane}: arrival times ({eat}, {lst}) reported although the output cannot switch')
            else:
                if eat < W.TMAX and eat < win[0]:
                    raise Violation(f's row {row} lane {lane}: earliest arrival {eat} before window {win}')
                if lst > W.TMIN and lst > win[1]:
                    raise Violation(f's row {row} lane {lane}: latest stabilisation {lst} after window {win}')

    # (b) shift, (c) scale
    def compare(sim2, f, what):
        for l in ([] if reuse else b.c.lines):
            for lane in range(lanes):
                w1 = waves[l.index][lane]
                w2 = W.line_wave(sim2, l.index, lane)
                exp = [f(t) for t in w1['times']]
                if w2['times'] != exp or w2['init'] != w1['init'] or w2['n'] != w1['n'] or w2['ovl'] != w1['ovl']:
                    raise Violation(f'{what}: line {l.index} ({b.line_src[l.index]}) lane {lane}: {w1["times"]} (init {w1["init"]}, ovl {w1["ovl"]}) '
                                    f'became {w2["times"]} (init {w2["init"]}, ovl {w2["ovl"]}), expected {exp}')
        for row in rows:
            for lane in range(lanes):
                for k in (3, 6, 10):
                    if float(sim.s[k, row, lane]) != float(sim2.s[k, row, lane]):
                        raise Violation(f'{what}: s[{k}] of row {row} lane {lane} changed')
                for k in (4, 5):
                    v1, v2 = float(sim.s[k, row, lane]), float(sim2.s[k, row, lane])
                    e = v1 if (v1 >= W.TMAX or v1 <= W.TMIN) else f(v1)
                    if v2 != e:
                        raise Violation(f'{what}: s[{k}] of row {row} lane {lane}: {v1} became {v2}, expected {e}')

    dt = case['shift'] / W.GRID
    sim2, _ = run(case, b, shift=dt)
    compare(sim2, lambda t: t + dt, f'shift by {dt}')
    sc = 2.0 ** case['scale']
    sim3, _ = run(case, b, scale=sc)
    compare(sim3, lambda t: t * sc, f'scale by {sc}')
    labels = []
    if busy: labels.append('line_with>=2_transitions')
    if multi_switch: labels.append('gate_with>=2_switching_operands')
    if case['pol_indep']: labels.append('polarity_independent')
    if case['strip_forks']: labels.append('strip_forks')
    if case.get('zf'): labels.append('ideal_forks')
    if case.get('pre'): labels.append('simulator_reused')
    if reuse: labels.append('c_reuse_captured_rows')
    if case.get('cuda'): labels.append('cuda_path')
    if case.get('nds', 1) > 1: labels.append('several_delay_datasets')
    if any(w['ovl'] for ww in waves for w in ww): labels.append('overflow')
    return Obs(busy and multi_switch, labels, checks=3 * len(b.c.lines) * lanes)


@st.composite
def stress_cases(draw, tier):
    """the wide-gate stress netlists of C13 (minimum capacity, many close edges, very unequal pin delays) through the window / shift / scale oracles"""
    from vk.props.c13 import stress_cases as base
    c = draw(base(tier))
    return dict(nl=c['nl'], lanes=c['lanes'], waves=c['waves'], pre=None, dpool=c['dpool'], caps=draw(st.sampled_from([4, 4, 8])), f64=False,
                strip_forks=c['strip_forks'], pol_indep=False, c_reuse=False, shift=draw(st.integers(-64, 512)), scale=draw(st.integers(-3, 3)),
                cuda=False, nds=1, gsel=0, mix=0)


PARTS = [Part('stress', prop, strategy=stress_cases, quick=(4, 500), thorough=(16, 20000)),
         Part('window', prop, strategy=cases, quick=(8, 350), thorough=(16, 8000))]
