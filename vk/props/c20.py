"""C20 - DEF data is extracted as written, with wildcards and via arrays expanded."""
from hypothesis import strategies as st

from vk.core import Violation, Obs, Part, HarnessError

ID = 'C20'
RULE = ('Part long: nets with one routed segment of 1500-20000 points (almost all with a * coordinate) and vias. Part roundtrip: Hypothesis-generated DEF models rendered to text in the supported subset: header statements, DESIGN, UNITS, DIEAREA (2..4 points), ROW and TRACKS '
        'statements, VIAS (options in any order), COMPONENTS (all orientations), PINS (NET, DIRECTION, USE, LAYER, PLACED, SPECIAL/PORT flags), '
        'SPECIALNETS and NETS with pins, USE and one ROUTED statement of 1..4 segments (NEW) whose point lists contain * wildcards on either '
        'coordinate, extension values, vias without/with orientation (regular nets) and via arrays DO n BY m STEP dx dy (special nets), wire options; '
        'random whitespace/newlines/comments. Oracle: the model itself (round trip text -> DefFile): every extracted attribute equals the model, '
        'net.vias[via] equals the multiset of absolute positions with wildcards resolved and arrays expanded, net.wires[layer] equals the per-segment '
        'point lists (compared after resolving wildcards, so resolved and as-written forms are both accepted; width for special nets). Every text is parsed twice '
        'in a row and both results are compared with the model. '
        'non-trivial: a net with >= 2 segments, a wildcard after a via, and a via array with n, m >= 2; distinct by SHA-1 of the model. One coordinate in ten lies between 2^53 and 2^62. Some cases also go through load(): the text in a scratch file (plain or .gz), then the file replaced by a text of the same length and loaded again from the same path.')
ASSUMPTIONS = ['supported subset only: non-negative integer coordinates, one ROUTED statement per net (optionally followed by one FIXED / COVER / NOSHIELD statement on a layer of its own), ROW with exactly one of DO/BY different from 1',
               'order inside net.vias[via] is not specified: compared as multisets']

IDENT = st.sampled_from(['u1', 'U22', 'core/reg_3_', 'n_12', 'clk', 'VDD', 'VSS', 'a[3]', 'top/u5/n7', 'net42', 'x', 'inst_A', 'b_0_', 'dout[15]', 'rst_n', 'c17'])
LAYERS = ['metal1', 'metal2', 'metal3', 'M4']
VIANAMES = ['via1_4', 'via12', 'VIA23_X', 'via3_array', 'N/tap', 'FS.cut', 'W[2]', 'E-E', 'SOUTHvia', 'FW_12']     # names may start like an orientation
ORIENTS = ['N', 'S', 'E', 'W', 'FN', 'FS', 'FE', 'FW']
COORD = st.one_of(*([st.integers(0, 200000)] * 9 + [st.integers(1 << 53, 1 << 62)]))          # sometimes values no double represents exactly


@st.composite
def routing(draw, special):
    nseg = draw(st.integers(1, 4))
    segs = []
    for _ in range(nseg):
        layer = draw(st.sampled_from(LAYERS))
        width = draw(st.integers(1, 900)) if special else None
        first = [draw(COORD), draw(COORD)] + ([draw(st.integers(0, 50))] if draw(st.integers(0, 5)) == 0 else [])
        items = []
        n = draw(st.integers(1, 5))
        for _ in range(n):
            kind = draw(st.sampled_from(['p', 'p', 'p', 'v', 'v']))
            if kind == 'p':
                x = draw(st.one_of(st.none(), COORD))
                y = draw(st.one_of(st.none(), COORD))
                ext = draw(st.one_of(st.none(), st.none(), st.integers(0, 50)))
                items.append(['p', x, y] + ([ext] if ext is not None else []))
            else:
                name = draw(st.sampled_from(VIANAMES))
                if special:
                    arr = draw(st.one_of(st.none(), st.tuples(st.integers(1, 4), st.integers(1, 4), st.integers(0, 500), st.integers(0, 500))))
                    items.append(['v', name, list(arr) if arr else None])
                else:
                    items.append(['v', name, draw(st.one_of(st.none(), st.sampled_from(ORIENTS)))])
        opts = draw(st.sampled_from(['', '', 'shape', 'style'])) if special else draw(st.sampled_from(['', '', 'TAPER', 'TAPERRULE r1', 'STYLE 2']))
        segs.append(dict(layer=layer, width=width, first=first, items=items, opt=opts))
    return segs


@st.composite
def models(draw, tier):
    names = lambda n: st.lists(IDENT, min_size=0, max_size=n, unique=True)
    m = dict(version=draw(st.sampled_from(['5.7', '5.8'])), divider=draw(st.sampled_from(['/', '|'])), busbit=draw(st.sampled_from(['[]', '<>'])),
             design=draw(IDENT), units=draw(st.sampled_from([100, 1000, 2000])),
             diearea=[[draw(COORD), draw(COORD)] for _ in range(draw(st.integers(2, 4)))],
             rows=[], tracks=[], vias=[], comps=[], pins=[], spnets=[], nets=[],
             ws=draw(st.integers(0, 1 << 30)))
    for i in range(draw(st.integers(0, 3))):
        horiz = draw(st.booleans())
        n = draw(st.integers(2, 500)); step = draw(st.integers(1, 400))
        m['rows'].append(dict(name=f'ROW_{i}', site=draw(st.sampled_from(['unit', 'core', 'FreePDK45_38x28_10R_NP_162NW_34O'])),
                              x=draw(COORD), y=draw(COORD), orient=draw(st.sampled_from(ORIENTS)),
                              do=n if horiz else 1, by=1 if horiz else n, sx=step if horiz else 0, sy=0 if horiz else step))
    for i in range(draw(st.integers(0, 3))):
        m['tracks'].append(dict(dir=draw(st.sampled_from(['X', 'Y'])), start=draw(COORD), num=draw(st.integers(1, 3000)), step=draw(st.integers(1, 900)),
                                layer=draw(st.sampled_from(LAYERS))))
    for nm in draw(st.lists(st.sampled_from(VIANAMES), max_size=3, unique=True)):
        opts = []
        for o in draw(st.permutations(['viarule', 'cutsize', 'layers', 'cutspacing', 'enclosure', 'rowcol', 'pattern'])):
            if draw(st.booleans()):
                if o in ('viarule', 'pattern'): opts.append([o, draw(st.sampled_from(['Via1Array-0', 'ruleA', '2_F0_2_F8']))])
                elif o == 'layers': opts.append([o, list(draw(st.permutations(LAYERS)))[:3]])
                else: opts.append([o, [draw(st.integers(0, 300)) for _ in range({'cutsize': 2, 'cutspacing': 2, 'enclosure': 4, 'rowcol': 2}[o])]])
        m['vias'].append(dict(name=nm, opts=opts))
    for nm in draw(names(4)):
        m['comps'].append(dict(name=nm, kind=draw(st.sampled_from(['NAND2_X1', 'INV_X1', 'DFF_X1', 'sram_32x16'])), x=draw(COORD), y=draw(COORD),
                               orient=draw(st.sampled_from(ORIENTS))))
    for nm in draw(names(4)):
        p = dict(name=nm, opts=[])
        for o in draw(st.permutations(['net', 'direction', 'use', 'layer', 'placed', 'special', 'port'])):
            if draw(st.booleans()):
                if o == 'net': p['opts'].append([o, draw(IDENT)])
                elif o == 'direction': p['opts'].append([o, draw(st.sampled_from(['INPUT', 'OUTPUT', 'INOUT']))])
                elif o == 'use': p['opts'].append([o, draw(st.sampled_from(['SIGNAL', 'POWER', 'GROUND', 'CLOCK']))])
                elif o == 'layer': p['opts'].append([o, draw(st.sampled_from(LAYERS)), [draw(COORD), draw(COORD)], [draw(COORD), draw(COORD)]])
                elif o == 'placed': p['opts'].append([o, [draw(COORD), draw(COORD)], draw(st.sampled_from(ORIENTS))])
                else: p['opts'].append([o])
        m['pins'].append(p)
    for special, key in ((True, 'spnets'), (False, 'nets')):
        for nm in draw(names(3)):
            net = dict(name=nm, pins=[[draw(IDENT), draw(st.sampled_from(['A', 'ZN', 'D', 'Q', 'VDD']))] for _ in range(draw(st.integers(0, 3)))],
                       use=draw(st.one_of(st.none(), st.sampled_from(['SIGNAL', 'POWER', 'CLOCK']))),
                       routed=draw(st.one_of(st.none(), routing(special))),
                       extra=draw(st.sampled_from([None, None, None, 'FIXED', 'COVER', 'NOSHIELD'])))
            m[key].append(net)
    return m


def render(m):
    r = [m['ws']]

    def w():      # generated whitespace / comments between tokens
        r[0], k = divmod(r[0], 5) if r[0] else (0x3fffffff, 0)
        return [' ', '  ', '\n', ' \n  ', ' # comment ; ( * ) END\n'][k]

    def pt(p):
        return '(' + w() + w().join('*' if v is None else str(v) for v in p) + w() + ')'

    t = []
    a = t.append
    a(f'VERSION {m["version"]} ;\nDIVIDERCHAR "{m["divider"]}" ;\nBUSBITCHARS "{m["busbit"]}" ;\nDESIGN {m["design"]} ;\n')
    a(f'UNITS DISTANCE MICRONS {m["units"]} ;\n')
    a('DIEAREA ' + ' '.join(pt(p) for p in m['diearea']) + ' ;\n')
    for x in m['rows']:
        a(f'ROW {x["name"]} {x["site"]} {x["x"]} {x["y"]} {x["orient"]} DO {x["do"]} BY {x["by"]} STEP {x["sx"]} {x["sy"]}{w()};\n')
    for x in m['tracks']:
        a(f'TRACKS {x["dir"]} {x["start"]} DO {x["num"]} STEP {x["step"]} LAYER {x["layer"]} ;\n')
    if m['vias']:
        a(f'VIAS {len(m["vias"])} ;\n')
        for v in m['vias']:
            a(f' - {v["name"]}')
            for o in v['opts']:
                val = o[1] if isinstance(o[1], str) else ' '.join(str(z) for z in o[1])
                a(f'{w()}+ {o[0].upper()} {val}')
            a(' ;\n')
        a('END VIAS\n')
    if m['comps']:
        a(f'COMPONENTS {len(m["comps"])} ;\n')
        for x in m['comps']:
            a(f' - {x["name"]} {x["kind"]}{w()}+ PLACED {pt([x["x"], x["y"]])} {x["orient"]} ;\n')
        a('END COMPONENTS\n')
    if m['pins']:
        a(f'PINS {len(m["pins"])} ;\n')
        for p in m['pins']:
            a(f' - {p["name"]}')
            for o in p['opts']:
                if o[0] in ('net', 'direction', 'use'): a(f'{w()}+ {o[0].upper()} {o[1]}')
                elif o[0] == 'layer': a(f'{w()}+ LAYER {o[1]} {pt(o[2])} {pt(o[3])}')
                elif o[0] == 'placed': a(f'{w()}+ PLACED {pt(o[1])} {o[2]}')
                else: a(f'{w()}+ {o[0].upper()}')
            a(' ;\n')
        a('END PINS\n')
    for key, kw in (('spnets', 'SPECIALNETS'), ('nets', 'NETS')):
        if not m[key]:
            continue
        a(f'{kw} {len(m[key])} ;\n')
        for n in m[key]:
            a(f' - {n["name"]}')
            for c, p in n['pins']:
                a(f'{w()}( {c} {p} )')
            if n['use']:
                a(f'{w()}+ USE {n["use"]}')
            if n['routed']:
                a(f'{w()}+ ROUTED ')
                for si, sg in enumerate(n['routed']):
                    if si: a(f'{w()}NEW ')
                    if key == 'spnets':
                        a(f'{sg["layer"]} {sg["width"]} ')
                        if sg['opt'] == 'shape': a('+ SHAPE STRIPE ')
                        elif sg['opt'] == 'style': a('+ STYLE 1 ')
                    else:
                        a(f'{sg["layer"]} {sg["opt"]} ')
                    a(pt(sg['first']))
                    for it in sg['items']:
                        if it[0] == 'p':
                            a(w() + pt(it[1:]))
                        elif key == 'spnets':
                            a(f'{w()}{it[1]}' + (f' DO {it[2][0]} BY {it[2][1]} STEP {it[2][2]} {it[2][3]}' if it[2] else ''))
                        else:
                            a(f'{w()}{it[1]}' + (f' {it[2]} ' if it[2] else ' '))
                if n.get('extra'):      # a further wiring statement of another kind on a layer of its own: the ROUTED geometry stays listed
                    a(f'{w()}+ {"FIXED" if key == "spnets" and n["extra"] == "NOSHIELD" else n["extra"]} metal9 ' + ('55 ' if key == 'spnets' else '') + '( 1 2 ) ( 1 77 )')      # NOSHIELD exists for regular nets only
            a(' ;\n')
        a(f'END {kw}\n')
    a('END DESIGN\n')
    return ''.join(t)


def expect_geometry(segs, special):
    wires = {}
    vias = {}
    for sg in segs:
        loc = list(sg['first'][:2])
        pts = [tuple(sg['first'])]
        for it in sg['items']:
            if it[0] == 'p':
                x = loc[0] if it[1] is None else it[1]
                y = loc[1] if it[2] is None else it[2]
                loc = [x, y]
                pts.append((x, y) + tuple(it[3:]))
            else:
                if special and it[2]:
                    nx, ny, dx, dy = it[2]
                    for i in range(nx):
                        for j in range(ny):
                            vias.setdefault(it[1], []).append((loc[0] + i * dx, loc[1] + j * dy, 'N'))
                else:
                    vias.setdefault(it[1], []).append((loc[0], loc[1], 'N' if special or not it[2] else it[2]))
        if len(pts) >= 2:
            wires.setdefault(sg['layer'], []).append((sg['width'], pts))
    return wires, vias


def resolve(points):
    out = []
    loc = None
    for p in points:
        p = tuple(p)
        x = p[0] if p[0] is not None else loc[0]
        y = p[1] if p[1] is not None else loc[1]
        loc = (x, y)
        out.append((x, y) + p[2:])
    return out


def prop(m):
    from kyupy import def_file
    text = render(m)
    poisoned = (m['ws'] >> 17) % 3 == 0
    if poisoned:
        # history: an earlier parse in the same process that is rejected half-way (the text of a sibling design - other name, every number of
        # UNITS / DIEAREA as rendered - cut off after one to four fifths): nothing of it may show up in what the next text yields
        sib = render(dict(m, design=('Q' if m['design'][0] != 'Q' else 'R') + m['design'][1:]))
        cut = len(sib) * (1 + (m['ws'] >> 19) % 4) // 5
        try:
            def_file.parse(sib[:cut] + '\n')
        except Exception:          # rejected; how is not the subject
            pass
    obs = compare(m, def_file.parse(text), 'after a rejected parse of a truncated text: ' if poisoned else '')
    if poisoned:
        obs.labels = tuple(obs.labels) + ('after_a_rejected_parse',)
    compare(m, def_file.parse(text), 'same text parsed a second time: ')      # extraction is a function of the text alone
    via = (m['ws'] >> 21) % 4
    if via >= 2:
        # the same through load(): the text in a file (plain or .gz), then the file replaced by a text of the same length (another design name)
        # and loaded again from the same path - each load reports what the file states at that moment
        from vk.files import with_files
        m2 = dict(m, design=('Z' if m['design'][0] != 'Z' else 'Y') + m['design'][1:])
        text2 = render(m2)
        if len(text2) != len(text):
            raise HarnessError('renderer: the two texts differ in length')
        d1, d2 = with_files([text, text2], '.def', via == 3, False, def_file.load)
        compare(m, d1, f'load() of a {"gzip " if via == 3 else ""}file: ')
        compare(m2, d2, f'load() of the same {"gzip " if via == 3 else ""}path after the file was replaced (same size): ')
        obs.labels = tuple(obs.labels) + ('loaded_from_file_twice',)
    return obs


def compare(m, d, ctx):
    def eq(what, got, exp):
        if got != exp:
            raise Violation(f'{ctx}{what}: extracted {got!r}, file states {exp!r}')

    eq('VERSION', d.version, m['version']); eq('DIVIDERCHAR', d.dividerchar, m['divider']); eq('BUSBITCHARS', d.busbitchars, m['busbit'])
    eq('DESIGN', d.design, m['design'])
    eq('UNITS', [tuple(u) for u in d.units], [('DISTANCE', 'MICRONS', m['units'])])
    eq('DIEAREA', [tuple(p) for p in d.diearea], [tuple(p) for p in m['diearea']])
    eq('ROWS', [tuple(r) for r in d.rows], [(x['name'], x['site'], (x['x'], x['y']), x['orient'], max(x['do'], x['by']), max(x['sx'], x['sy'])) for x in m['rows']])
    eq('TRACKS', [tuple(t) for t in d.tracks], [(x['dir'], x['start'], x['num'], x['step'], x['layer']) for x in m['tracks']])
    eq('via names', sorted(d.vias), sorted(v['name'] for v in m['vias']))
    for v in m['vias']:
        dv = d.vias[v['name']]
        given = dict((o[0], o[1]) for o in v['opts'])
        for k, val in given.items():
            eq(f'via {v["name"]} {k}', getattr(dv, k, None), val)
        if 'rowcol' not in given: eq(f'via {v["name"]} rowcol default', dv.rowcol, [1, 1])
        if 'cutspacing' not in given: eq(f'via {v["name"]} cutspacing default', dv.cutspacing, [0, 0])
    eq('components', dict(d.components), {x['name']: (x['kind'], (x['x'], x['y']), x['orient']) for x in m['comps']})
    eq('pin names', sorted(d.pins), sorted(p['name'] for p in m['pins']))
    for p in m['pins']:
        dp = d.pins[p['name']]
        placed = []
        for o in p['opts']:
            if o[0] in ('net', 'direction', 'use'): eq(f'pin {p["name"]} {o[0]}', getattr(dp, o[0], None), o[1])
            elif o[0] == 'layer':
                got = getattr(dp, 'layer', None)
                eq(f'pin {p["name"]} layer', [got[0], tuple(got[1]), tuple(got[2])] if got else None, [o[1], tuple(o[2]), tuple(o[3])])
            elif o[0] == 'placed': placed.append((o[1][0], o[1][1], o[2]))
        eq(f'pin {p["name"]} placed', [tuple(x) for x in dp.points], placed)
    multi = wild_after_via = arr = False
    for key, special in (('spnets', True), ('nets', False)):
        dn = d.specialnets if special else d.nets
        eq(f'{key} names', sorted(dn), sorted(n['name'] for n in m[key]))
        for n in m[key]:
            g = dn[n['name']]
            eq(f'{key} {n["name"]} pins', [tuple(p) for p in g.pins], [tuple(p) for p in n['pins']])
            if n['use']: eq(f'{key} {n["name"]} use', getattr(g, 'use', None), n['use'])
            if not n['routed']:
                continue
            wires, vias = expect_geometry(n['routed'], special)
            gv = g.vias
            eq(f'{key} {n["name"]} via types', sorted(k for k in gv if gv[k]), sorted(vias))
            for k in vias:
                eq(f'{key} {n["name"]} vias[{k}]', sorted((tuple(x) for x in gv[k]), key=repr), sorted(vias[k], key=repr))
            gw = g.wires
            eq(f'{key} {n["name"]} wire layers', sorted(k for k in gw if gw[k] and k != 'metal9'), sorted(wires))
            for layer in wires:
                got = [(wd, resolve(pts)) for wd, pts in gw[layer]]
                exp = [(wd, [tuple(p) for p in pts]) for wd, pts in wires[layer]]
                if special:
                    eq(f'{key} {n["name"]} wires[{layer}]', got, exp)
                else:
                    eq(f'{key} {n["name"]} wires[{layer}] points', [g_[1] for g_ in got], [e[1] for e in exp])
            if len(n['routed']) >= 2: multi = True
            for sg in n['routed']:
                seen_via = False
                for it in sg['items']:
                    if it[0] == 'v':
                        seen_via = True
                        if special and it[2] and it[2][0] >= 2 and it[2][1] >= 2: arr = True
                    elif seen_via and (it[1] is None or it[2] is None):
                        wild_after_via = True
    labels = []
    if multi: labels.append('multi_segment')
    if wild_after_via: labels.append('wildcard_after_via')
    if arr: labels.append('via_array>=2x2')
    if any(n.get('extra') and n['routed'] for k_ in ('spnets', 'nets') for n in m[k_]): labels.append('second_wiring_statement')
    if m['nets'] and any(n['routed'] for n in m['nets']): labels.append('routed_regular_net')
    return Obs(multi and wild_after_via and arr, labels)


def enum_long(tier):
    """one special and one regular net whose single routed segment has thousands of points (serpentine: nearly every point inherits a
    coordinate) with a via now and then and a stack of vias at the end"""
    for npts in ([1500] if tier == 'quick' else [1500, 6000, 20000]):
        def seg(special):
            items = []
            for k in range(npts):
                if k % 97 == 96:
                    items.append(['v', 'via1_4', ([2, 1, 40, 40] if k % 2 else None) if special else (None if k % 2 else 'FS')])
                elif k % 2:
                    items.append(['p', 100 + 7 * k, None])
                else:
                    items.append(['p', None, 50 + 3 * k])
            items += [['v', 'via12', None], ['v', 'VIA23_X', None]]
            return dict(layer='metal2', width=120 if special else None, first=[10, 20], items=items, opt='')
        yield dict(version='5.8', divider='/', busbit='[]', design='long', units=1000, diearea=[[0, 0], [900000, 900000]], rows=[], tracks=[], vias=[],
                   comps=[], pins=[], ws=npts,
                   spnets=[dict(name='VDD', pins=[], use='POWER', routed=[seg(True)])],
                   nets=[dict(name='n_12', pins=[['u1', 'A']], use=None, routed=[seg(False)])])


PARTS = [Part('long', prop, enumerate=enum_long, quick=(1, 0), thorough=(3, 0)),
         Part('roundtrip', prop, strategy=models, quick=(8, 110), thorough=(16, 2000))]
