"""C09 - circuit graph stays consistent under every edit history."""
import pickle

from hypothesis import strategies as st

from vk.core import Violation, Obs, Part, HarnessError

ID = 'C09'
RULE = ('Part subst (complete enumeration): every implementation of the pool (six bench texts, eight hand-wired ones) x every subset of connected instance inputs and outputs: structure valid before and after, implementation untouched, ports kept, connected output ports still driven, copy() valid. ' +
        'Model-based, histories: generated sequences (1..60 steps) of public edit operations starting from the empty circuit - add cell, add fork, '
        'get_or_add_fork, add line with implicit pins, add line with explicit free pins, remove line, remove disconnected node, append/replace port, '
        'eliminate_1to1_forks, substitute(cell, implementation from a pool of generated shapes), copy(), pickle round trip (the history continues on '
        'the rebuilt object). Every operation is interpreted on the real Circuit and on a dictionary model; after every step: indices consecutive '
        'and equal to list positions, cells/forks lookups exact, every line referenced from exactly its driver output pin and reader input pin and '
        'from nowhere else, fork outputs gap-free, ports live, stats equal recomputed counts, and the whole graph equals the model. '
        'Part machine: the same interpreter driven by a Hypothesis RuleBasedStateMachine. non-trivial: a removal of a non-last node or line followed '
        'by >= 2 further edits, or an eliminate/substitute followed by edits; distinct by SHA-1 of the history. Implementations for substitute include hand-wired ones with cell-kind ports read inside, two of them edited in place (reader lines of a port removed again).')
ASSUMPTIONS = ['well-formed use only: explicit pins on free positions, a fork has at most one input line (pin 0, not from itself or from a fork it feeds), nodes are removed '
               'after their lines and after being taken off the port list, removing a removed line or node again is a no-op',
               'substitute: the model does not predict names of copied-in nodes; untouched nodes/lines must be preserved and the result must be '
               'structurally valid, then the model is re-derived']

KINDS = ['and', 'NAND2', 'input', 'output', 'DFF', 'latch', 'buf', 'MYCELL', 'or3']
NAMES = ['a', 'b', 'c', 'd', 'e', 'f', 'g', 'h', 'n1', 'n2', 'n3', 'x~y', 'q[0]', 'q[1]']
IMPLS = ['input(a,b) output(y) y=and(a,b)',
         'input(a,b) output(y,z) y=and(a,b) z=or(a,b)',
         'input(a) output(y) t=not(a) y=buf(t)',
         'input(a,b,c) output(y) t=and(a,b) y=or(t,c,a)',
         'input(a,b) output(y,z) y=xor(a,b) z=not(y)',
         'input(a,b) output(q,z) q=dff(a) z=and(q,b)']

def handmade_impl():
    """an implementation wired by hand through the public API: the first output port hangs behind two plain forks (g -> w -> w2 -> y)"""
    from kyupy.circuit import Circuit, Node, Line
    c = Circuit('hand')
    a, b_ = Node(c, 'a'), Node(c, 'b')
    g = Node(c, 'g', 'nand')
    Line(c, a, g); Line(c, b_, g)
    w, w2, y, z = Node(c, 'w'), Node(c, 'w2'), Node(c, 'y'), Node(c, 'z')
    Line(c, g, w); Line(c, w, w2); Line(c, w2, y); Line(c, w, z)
    for n in (a, b_, y, z):
        c.io_nodes.append(n)
    return c


def handmade_impl3():
    """a third hand-wired implementation: the plain fork w feeds three output ports directly (p1, p2, p3, in that pin order) and an inverter
    behind them, so unconnected instance outputs leave up to three neighbouring gaps in the copy of w"""
    from kyupy.circuit import Circuit, Node, Line
    c = Circuit('hand3')
    a, b_ = Node(c, 'a'), Node(c, 'b')
    g = Node(c, 'g', 'xor')
    Line(c, a, g); Line(c, b_, g)
    w = Node(c, 'w'); Line(c, g, w)
    p1, p2, p3, q = Node(c, 'p1'), Node(c, 'p2'), Node(c, 'p3'), Node(c, 'q')
    h = Node(c, 'h', 'inv')
    Line(c, w, p1); Line(c, w, p2); Line(c, w, p3); Line(c, w, h); Line(c, h, q)
    for n in (a, b_, q, p1, p2, p3):
        c.io_nodes.append(n)
    return c


def handmade_impl2():
    """another hand-wired implementation: output port y is read inside (by an inverter) and, after that, drives output port z directly"""
    from kyupy.circuit import Circuit, Node, Line
    c = Circuit('hand2')
    a, b_ = Node(c, 'a'), Node(c, 'b')
    g = Node(c, 'g', 'nor')
    Line(c, a, g); Line(c, b_, g)
    y, q, z = Node(c, 'y'), Node(c, 'q'), Node(c, 'z')
    h = Node(c, 'h', 'not')
    Line(c, g, y); Line(c, y, h); Line(c, h, q); Line(c, y, z)
    for n in (a, b_, y, q, z):
        c.io_nodes.append(n)
    return c


def handmade_impl4(variant):
    """hand-wired with cell-kind ports ('input' / 'output' nodes): output port z is read inside by one or two inverters (feeding ports y, x).
    variant 1: the line z -> first inverter is removed again (in-place edit: z keeps an empty output pin); variant 2: the second one is removed"""
    from kyupy.circuit import Circuit, Node, Line
    c = Circuit(f'hand4_{variant}')
    a = Node(c, 'a', 'input')
    z, y, x = Node(c, 'z', 'output'), Node(c, 'y', 'output'), Node(c, 'x', 'output')
    bf, i1, i2 = Node(c, 'bf', 'buf'), Node(c, 'i1', 'inv'), Node(c, 'i2', 'inv')
    Line(c, a, bf); Line(c, bf, z)
    l1 = Line(c, z, i1); Line(c, i1, y)
    l2 = None
    if variant != 1:
        l2 = Line(c, z, i2)
    Line(c, i2, x)
    if variant == 1: l1.remove()
    if variant == 2: l2.remove()
    for n in (a, z, y, x):
        c.io_nodes.append(n)
    return c


def handmade_impl5():
    """hand-wired around a two-output primitive: a flip-flop whose outputs Q (pin 0) and QN (pin 1) drive the output ports q and qn directly"""
    from kyupy.circuit import Circuit, Node, Line
    c = Circuit('hand5')
    a, q, qn = Node(c, 'a', 'input'), Node(c, 'q', 'output'), Node(c, 'qn', 'output')
    ff = Node(c, 'ff', 'DFF')
    Line(c, a, ff); Line(c, (ff, 0), q); Line(c, (ff, 1), qn)
    for n in (a, q, qn):
        c.io_nodes.append(n)
    return c


def handmade_impl6():
    """hand-wired around a two-output cell that is not a state element (a half-adder core: pin 0 -> port s, pin 1 -> port co, no forks)"""
    from kyupy.circuit import Circuit, Node, Line
    c = Circuit('hand6')
    a, b_, s_, co = Node(c, 'a', 'input'), Node(c, 'b', 'input'), Node(c, 's', 'output'), Node(c, 'co', 'output')
    core = Node(c, 'core', 'HA')
    Line(c, a, core); Line(c, b_, core); Line(c, (core, 0), s_); Line(c, (core, 1), co)
    for n in (a, b_, s_, co):
        c.io_nodes.append(n)
    return c


OPS = ['cell', 'fork', 'gof', 'limp', 'lexp', 'rml', 'rmn', 'ioapp', 'ioset', 'elim', 'copy', 'pickle', 'subst', 'chain', 'inst', 'wide', 'rmtail']
OP = st.tuples(st.sampled_from(OPS + ['rmtail', 'cell', 'fork', 'limp', 'limp', 'lexp', 'lexp', 'rml', 'rml', 'rmn', 'chain', 'inst', 'subst', 'elim']),
               st.integers(0, 999), st.integers(0, 999), st.integers(0, 5), st.integers(0, 5))


def cases(tier):
    return st.lists(OP, min_size=6, max_size=40 if tier == 'quick' else 60).map(lambda l: dict(ops=[list(x) for x in l]))


class Model:
    """nodes: key (name, is_fork) -> dict(kind, ins [line id|None], outs [...]); lines: id -> [dkey, dpin, rkey, rpin]; io: [key]"""
    def __init__(self):
        self.nodes = {}
        self.lines = {}
        self.io = []
        self.next = 0

    @staticmethod
    def free(lst):
        for i, x in enumerate(lst):
            if x is None:
                return i
        return len(lst)

    @staticmethod
    def put(lst, i, v):
        while len(lst) <= i:
            lst.append(None)
        lst[i] = v

    def add_line(self, dk, dpin, rk, rpin):
        i = self.next; self.next += 1
        self.lines[i] = [dk, dpin, rk, rpin]
        self.put(self.nodes[dk]['outs'], dpin, i)
        self.put(self.nodes[rk]['ins'], rpin, i)
        return i

    def remove_line(self, i):
        dk, dpin, rk, rpin = self.lines.pop(i)
        if dk in self.nodes:
            outs = self.nodes[dk]['outs']
            outs[dpin] = None
            if dk[1]:
                del outs[dpin]
                for p, li in enumerate(outs):
                    self.lines[li][1] = p
        if rk in self.nodes:
            self.nodes[rk]['ins'][rpin] = None

    def canon(self):
        def end(li, which):
            if li is None:
                return None
            l = self.lines[li]
            return (l[0], l[1]) if which == 'd' else (l[2], l[3])
        return ({k: (v['kind'], strip(tuple(end(li, 'd') for li in v['ins'])), strip(tuple(end(li, 'r') for li in v['outs'])))
                 for k, v in self.nodes.items()}, list(self.io))


def key(n):
    return (n.name, n.kind == '__fork__')


def strip(t):
    """pin lists are compared without trailing unconnected positions (copy/pickle do not reproduce them)"""
    while t and t[-1] is None:
        t = t[:-1]
    return t


def canon_circuit(c):
    def end(l, which):
        if l is None:
            return None
        return (key(l.driver), l.driver_pin) if which == 'd' else (key(l.reader), l.reader_pin)
    return ({key(n): (n.kind, strip(tuple(end(l, 'd') for l in n.ins)), strip(tuple(end(l, 'r') for l in n.outs))) for n in c.nodes},
            [key(n) for n in c.io_nodes])


def structural(c, when):
    for i, n in enumerate(c.nodes):
        if n.index != i:
            raise Violation(f'{when}: nodes[{i}].index == {n.index}')
        if n.circuit is not c:
            raise Violation(f'{when}: node {n.name} in nodes but its circuit attribute is not this circuit')
    for i, l in enumerate(c.lines):
        if l.index != i:
            raise Violation(f'{when}: lines[{i}].index == {l.index}')
    node_ids = {id(n) for n in c.nodes}
    line_ids = {id(l) for l in c.lines}
    if len(node_ids) != len(c.nodes) or len(line_ids) != len(c.lines):
        raise Violation(f'{when}: a node or line is listed twice')
    cells = {n.name: n for n in c.nodes if n.kind != '__fork__'}
    forks = {n.name: n for n in c.nodes if n.kind == '__fork__'}
    if set(c.cells) != set(cells) or any(c.cells[k] is not v for k, v in cells.items()):
        raise Violation(f'{when}: cells lookup {sorted(c.cells)} does not match the cell nodes {sorted(cells)}')
    if set(c.forks) != set(forks) or any(c.forks[k] is not v for k, v in forks.items()):
        raise Violation(f'{when}: forks lookup {sorted(c.forks)} does not match the fork nodes {sorted(forks)}')
    if len(cells) + len(forks) != len(c.nodes):
        raise Violation(f'{when}: duplicate node names')
    refs = {}
    for n in c.nodes:
        for pin, l in enumerate(n.ins):
            if l is None:
                continue
            if id(l) not in line_ids:
                raise Violation(f'{when}: {n.name}.ins[{pin}] references a line that is not in the circuit')
            if l.reader is not n or l.reader_pin != pin:
                raise Violation(f'{when}: {n.name}.ins[{pin}] holds a line that records reader {getattr(l.reader, "name", None)} pin {l.reader_pin}')
            refs[id(l)] = refs.get(id(l), 0) + 1
        for pin, l in enumerate(n.outs):
            if l is None:
                if n.kind == '__fork__':
                    raise Violation(f'{when}: fork {n.name} has a gap in its outputs at pin {pin}')
                continue
            if id(l) not in line_ids:
                raise Violation(f'{when}: {n.name}.outs[{pin}] references a line that is not in the circuit')
            if l.driver is not n or l.driver_pin != pin:
                raise Violation(f'{when}: {n.name}.outs[{pin}] holds a line that records driver {getattr(l.driver, "name", None)} pin {l.driver_pin}')
            refs[id(l)] = refs.get(id(l), 0) + 1
    for l in c.lines:
        if id(l.driver) not in node_ids or id(l.reader) not in node_ids:
            raise Violation(f'{when}: line {l.index} has an endpoint that is not a node of the circuit')
        if refs.get(id(l), 0) != 2:
            raise Violation(f'{when}: line {l.index} is referenced from {refs.get(id(l), 0)} pins instead of exactly its driver and reader pin')
        if l.circuit is not c:
            raise Violation(f'{when}: line {l.index} circuit attribute is not this circuit')
    for n in c.io_nodes:
        if n is None or id(n) not in node_ids:
            raise Violation(f'{when}: io_nodes contains an entry that is not a node of the circuit')
    st_ = c.stats
    exp = {'__node__': len(c.nodes), '__cell__': len(cells), '__fork__': len(forks), '__io__': len(c.io_nodes), '__line__': len(c.lines)}
    for n in cells.values():
        exp[n.kind] = exp.get(n.kind, 0) + 1
        k = n.kind.lower()
        if 'dff' in k: exp['__dff__'] = exp.get('__dff__', 0) + 1
        elif 'latch' in k: exp['__latch__'] = exp.get('__latch__', 0) + 1
        elif 'put' not in k: exp['__comb__'] = exp.get('__comb__', 0) + 1
    exp['__seq__'] = exp.get('__dff__', 0) + exp.get('__latch__', 0)
    for k in set(exp) | set(st_):
        if st_.get(k, 0) != exp.get(k, 0):
            raise Violation(f'{when}: stats[{k!r}] = {st_.get(k, 0)}, containers say {exp.get(k, 0)}')


class Interp:
    def __init__(self):
        from kyupy.circuit import Circuit
        self.c = Circuit('h')
        self.m = Model()
        self.flags = set()
        self.edits_after = None     # counts edits after an interesting removal / transformation
        self.steps = 0
        self._impls = None
        self.dead = []           # removed Line / Node objects (handles a caller may still hold)
        self.originals = []      # circuits that were copied / pickled earlier: later edits of the copy must not reach them

    # helpers -----------------------------------------------------------------------------
    def node(self, k):
        return self.c.forks[k[0]] if k[1] else self.c.cells[k[0]]

    def line_obj(self, li):
        dk, dpin, rk, rpin = self.m.lines[li]
        return self.node(dk).outs[dpin]

    def check(self, when):
        structural(self.c, when)
        a, b = self.m.canon(), canon_circuit(self.c)
        if a != b:
            diff = [k for k in set(a[0]) | set(b[0]) if a[0].get(k) != b[0].get(k)]
            raise Violation(f'{when}: graph differs from the model at {diff[:4]}: model {[a[0].get(k) for k in diff[:2]]} '
                            f'circuit {[b[0].get(k) for k in diff[:2]]}; io model {a[1]} circuit {b[1]}')

    def impls(self):
        if self._impls is None:
            from kyupy import bench
            self._impls = [bench.parse(t) for t in IMPLS] + [handmade_impl(), handmade_impl2(), handmade_impl3(), handmade_impl4(0), handmade_impl4(1), handmade_impl4(2), handmade_impl5(), handmade_impl6()]
        return self._impls

    def rederive(self):
        m = Model()
        for n in self.c.nodes:
            m.nodes[key(n)] = dict(kind=n.kind, ins=[None] * len(n.ins), outs=[None] * len(n.outs))
        for l in self.c.lines:
            m.add_line(key(l.driver), l.driver_pin, key(l.reader), l.reader_pin)
        m.io = [key(n) for n in self.c.io_nodes]
        self.m = m

    # operations --------------------------------------------------------------------------
    def step(self, op):
        from kyupy.circuit import Node, Line
        name, a, b, p, q = op
        c, m = self.c, self.m
        keys = list(m.nodes)
        done = False
        if name == 'cell':
            nm = NAMES[a % len(NAMES)]
            if (nm, False) not in m.nodes:
                kind = KINDS[b % len(KINDS)]
                Node(c, nm, kind)
                m.nodes[(nm, False)] = dict(kind=kind, ins=[], outs=[])
                done = True
        elif name in ('fork', 'gof'):
            nm = NAMES[a % len(NAMES)]
            if name == 'gof':
                n = c.get_or_add_fork(nm)
                if n.kind != '__fork__' or n.name != nm:
                    raise Violation(f'get_or_add_fork({nm}) returned {n}')
                if (nm, True) not in m.nodes:
                    m.nodes[(nm, True)] = dict(kind='__fork__', ins=[], outs=[])
                done = True
            elif (nm, True) not in m.nodes:
                Node(c, nm)
                m.nodes[(nm, True)] = dict(kind='__fork__', ins=[], outs=[])
                done = True
        elif name in ('chain', 'inst'):
            # macros built from the primitives: a driven 1:1 fork chain / a fully connected instance of an implementation's shape
            free_c = [x for x in NAMES if (x, False) not in m.nodes]
            free_f = [x for x in NAMES if (x, True) not in m.nodes]

            def mk(nm, kind, fork=False):
                if fork:
                    Node(c, nm); m.nodes[(nm, True)] = dict(kind='__fork__', ins=[], outs=[])
                else:
                    Node(c, nm, kind); m.nodes[(nm, False)] = dict(kind=kind, ins=[], outs=[])
                return (nm, fork)

            def ln(dk, rk):
                dpin, rpin = m.free(m.nodes[dk]['outs']), m.free(m.nodes[rk]['ins'])
                Line(c, self.node(dk), self.node(rk)); m.add_line(dk, dpin, rk, rpin)

            if name == 'chain' and len(free_c) >= 2 and free_f:
                d = mk(free_c[a % len(free_c)], KINDS[b % len(KINDS)])
                f = mk(free_f[b % len(free_f)], None, True)
                rest = [x for x in free_c if x != d[0]]
                r = mk(rest[p % len(rest)], KINDS[q % len(KINDS)])
                ln(d, f); ln(f, r)
                if q % 2 and len(free_f) >= 2:
                    f2 = mk([x for x in free_f if x != f[0]][a % (len(free_f) - 1)], None, True)
                    ln(f, f2)
                done = True
            elif name == 'inst' and free_c:
                impl = self.impls()[b % len(IMPLS)]
                n_in = len([n for n in impl.io_nodes if len(n.ins) == 0])
                n_out = len(impl.io_nodes) - n_in
                cells_now = [k for k in keys if not k[1]]
                if cells_now and len(free_f) >= n_out:
                    x = mk(free_c[a % len(free_c)], 'MYCELL')
                    for j in range(n_in):
                        if (p >> j) & 1 and j > 0:
                            continue                        # leave this input pin unconnected
                        dk = cells_now[(a + j * 7) % len(cells_now)]
                        dpin, rpin = m.free(m.nodes[dk]['outs']), j
                        Line(c, self.node(dk), (self.node(x), j)); m.add_line(dk, dpin, x, rpin)
                    for j in range(n_out):
                        f = mk(free_f[j], None, True)
                        Line(c, (self.node(x), j), self.node(f)); m.add_line(x, j, f, 0)
                    done = True
        elif name in ('limp', 'lexp') and keys:
            dk = keys[a % len(keys)]
            # readers: cells, or forks without input line (a fork has one driver, on pin 0, and does not read itself)
            rks = [k for k in keys if (not k[1]) or (k != dk and all(x is None for x in m.nodes[k]['ins']) and len(m.nodes[k]['ins']) <= 1)]
            def fork_ancestors(k):
                seen = set()
                while k[1] and k not in seen:
                    seen.add(k)
                    ins = m.nodes[k]['ins']
                    if not ins or ins[0] is None:
                        break
                    k = m.lines[ins[0]][0]
                return seen
            rks = [k for k in rks if not (k[1] and k in fork_ancestors(dk))]     # no driverless loops of forks
            if rks:
                rk = rks[b % len(rks)]
                outs, ins = m.nodes[dk]['outs'], m.nodes[rk]['ins']
                if name == 'limp' and not (rk[1] and m.free(ins) != 0):
                    dpin, rpin = m.free(outs), m.free(ins)
                    Line(c, self.node(dk), self.node(rk))
                    m.add_line(dk, dpin, rk, rpin)
                    done = True
                elif name == 'lexp':
                    if dk[1]:
                        dpin = len(outs)                      # fork outputs are gap-free: the first free pin
                    else:
                        frees = [i for i in range(len(outs) + 3) if i >= len(outs) or outs[i] is None]
                        dpin = frees[p % len(frees)]
                    if rk[1]:
                        rpin = 0
                    else:
                        frees = [i for i in range(len(ins) + 3) if i >= len(ins) or ins[i] is None]
                        rpin = frees[q % len(frees)]
                    Line(c, (self.node(dk), dpin), (self.node(rk), rpin))
                    m.add_line(dk, dpin, rk, rpin)
                    done = True
        elif name == 'wide':
            # macro: a pin list of 16..40 entries (a clock / reset net: one fork read by many pins, or one cell with many operands) grown
            # through implicit pins
            free_c = [x for x in NAMES if (x, False) not in m.nodes]
            free_f = [x for x in NAMES if (x, True) not in m.nodes]
            forks_now = [k for k in keys if k[1]]
            cells_now = [k for k in keys if not k[1]]
            if not cells_now and free_c:
                Node(c, free_c[0], KINDS[b % len(KINDS)]); m.nodes[(free_c[0], False)] = dict(kind=KINDS[b % len(KINDS)], ins=[], outs=[])
                cells_now = [(free_c[0], False)]
            if not forks_now and free_f:
                Node(c, free_f[0]); m.nodes[(free_f[0], True)] = dict(kind='__fork__', ins=[], outs=[])
                forks_now = [(free_f[0], True)]
            if cells_now and forks_now:
                fk = forks_now[a % len(forks_now)]
                target = 16 + (b % 25)
                j = 0
                while len(m.nodes[fk]['outs']) < target:
                    rk = cells_now[(a + j) % len(cells_now)]; j += 1
                    dpin, rpin = m.free(m.nodes[fk]['outs']), m.free(m.nodes[rk]['ins'])
                    Line(c, self.node(fk), self.node(rk)); m.add_line(fk, dpin, rk, rpin)
                self.flags.add('fork_with_16+_outputs')
                done = True
        elif name == 'rmtail':
            # several lines of the widest pin list removed in a row (newest first / oldest first / from the middle), then - q odd - an implicit-pin
            # line added straight away
            wide = sorted((k for k in keys if len([x for x in m.nodes[k]['outs'] if x is not None]) >= 2), key=lambda k: -len(m.nodes[k]['outs']))
            if wide:
                dk = wide[0]
                for _ in range(1 + a % 3):
                    outs = [x for x in m.nodes[dk]['outs'] if x is not None]
                    if not outs:
                        break
                    li = outs[-1] if b % 3 == 0 else outs[0] if b % 3 == 1 else outs[(a + p) % len(outs)]
                    lo = self.line_obj(li)
                    lo.remove(); m.remove_line(li); self.dead.append(lo)
                cells_now = [k for k in keys if not k[1]]
                if q % 2 and cells_now:
                    rk = cells_now[(a + b) % len(cells_now)]
                    dpin, rpin = m.free(m.nodes[dk]['outs']), m.free(m.nodes[rk]['ins'])
                    Line(c, self.node(dk), self.node(rk)); m.add_line(dk, dpin, rk, rpin)
                if len(m.nodes[dk]['outs']) >= 14:
                    self.flags.add('removals_in_a_row_from_a_wide_pin_list')
                self.edits_after = 0
                done = True
        elif name == 'rml' and m.lines:
            ids = sorted(m.lines)
            li = ids[a % len(ids)]
            lo = self.line_obj(li)
            if lo.index != len(c.lines) - 1:
                self.flags.add('removed_non_last_line'); self.edits_after = 0
            lo.remove()
            m.remove_line(li)
            done = True
            if self.dead and p % 2 == 0:          # removing an object a second time is a no-op (both remove() methods say so by their guards)
                self.dead[b % len(self.dead)].remove()
                self.flags.add('removed_twice')
            self.dead.append(lo)
        elif name == 'rmn':
            cand = [k for k in keys if all(x is None for x in m.nodes[k]['ins']) and all(x is None for x in m.nodes[k]['outs'])
                    and k not in m.io]
            if cand:
                k = cand[a % len(cand)]
                n = self.node(k)
                if n.index != len(c.nodes) - 1:
                    self.flags.add('removed_non_last_node'); self.edits_after = 0
                n.remove()
                del m.nodes[k]
                done = True
                if self.dead and p % 2 == 0:
                    self.dead[b % len(self.dead)].remove()
                    self.flags.add('removed_twice')
                self.dead.append(n)
        elif name == 'ioapp' and keys:
            k = keys[a % len(keys)]
            if k not in m.io:
                c.io_nodes.append(self.node(k)); m.io.append(k); done = True
        elif name == 'ioset' and keys and m.io:
            k = keys[a % len(keys)]
            if k not in m.io:
                pos = b % len(m.io)
                c.io_nodes[pos] = self.node(k); m.io[pos] = k; done = True
        elif name == 'elim':
            elig = [k for k, v in m.nodes.items() if k[1] and k not in m.io and len(v['outs']) == 1]
            undriven = [k for k in elig if not (len(m.nodes[k]['ins']) >= 1 and m.nodes[k]['ins'][0] is not None)]
            elig = [k for k in elig if k not in undriven]       # an undriven 1:1 fork (never driven, or its driver line was removed) stays
            if undriven: self.flags.add('elim_with_undriven_fork')
            if True:
                c.eliminate_1to1_forks()
                for k in elig:
                    v = m.nodes[k]
                    lin, lout = v['ins'][0], v['outs'][0]
                    rk, rpin = m.lines[lout][2], m.lines[lout][3]
                    del m.nodes[k]
                    del m.lines[lout]
                    m.lines[lin][2], m.lines[lin][3] = rk, rpin
                    m.nodes[rk]['ins'][rpin] = lin
                if elig:
                    self.flags.add('eliminated_forks'); self.edits_after = 0
                done = True
        elif name == 'copy':
            c2 = c.copy()
            if not (c2 == c):
                raise Violation('copy() != original under ==')
            structural(c, 'original after copy()')
            if canon_circuit(c) != m.canon():
                raise Violation('copy() modified the original')
            self.originals.append((c, canon_circuit(c), self.steps))
            self.c = c2
            done = True
        elif name == 'pickle':
            c2 = pickle.loads(pickle.dumps(c))
            if not (c2 == c):
                raise Violation('pickle round trip != original under ==')
            if c2.name != c.name:
                raise Violation('pickle round trip lost the circuit name')
            self.originals.append((c, canon_circuit(c), self.steps))
            self.c = c2
            done = True
        elif name == 'subst':
            impls = self.impls()
            impl = impls[b % len(impls)]
            n_in = len([n for n in impl.io_nodes if len(n.ins) == 0])
            n_out = len(impl.io_nodes) - n_in
            cand = [k for k, v in m.nodes.items() if not k[1] and k not in m.io and len(v['ins']) <= n_in and v['kind'] == 'MYCELL'
                    and len(v['outs']) <= n_out and not any(kk[0].startswith(k[0] + '~') for kk in m.nodes)]
            if cand:
                k = cand[a % len(cand)]
                before = canon_circuit(c)
                names_before = set(before[0])
                c.substitute(self.node(k), impl)
                structural(c, f'after substitute({k[0]}, impl {b % len(impls)})')
                after = canon_circuit(c)
                for kk, v in before[0].items():
                    if kk == k:
                        continue
                    if kk not in after[0]:
                        raise Violation(f'substitute({k[0]}) removed untouched node {kk}')
                    if after[0][kk][0] != v[0]:
                        raise Violation(f'substitute({k[0]}) changed the kind of untouched node {kk}')
                if k not in after[0] and all(x is not None for x in m.nodes[k]['outs']) and len(m.nodes[k]['outs']) == n_out:
                    raise Violation(f'substitute({k[0]}): the instance name is gone although all outputs are connected')
                if after[1] != before[1]:
                    raise Violation(f'substitute({k[0]}) changed the port list')
                self.rederive()
                self.flags.add('substituted'); self.edits_after = 0
                done = True
        if done:
            self.steps += 1
            if self.edits_after is not None and name not in ('rml', 'rmn', 'elim', 'subst'):
                self.edits_after += 1
            self.check(f'after step {self.steps} ({name} {a} {b} {p} {q})')
        return done

    def check_originals(self):
        for c0, snap, step in self.originals:
            structural(c0, f'circuit copied at step {step}, after later edits of the copy')
            if canon_circuit(c0) != snap:
                raise Violation(f'edits of a copy changed the circuit it was copied from (copied at step {step})')

    def obs(self):
        self.check_originals()
        nt = self.edits_after is not None and self.edits_after >= 2
        return Obs(nt, sorted(self.flags) + (['edits_after_removal>=2'] if nt else []), checks=self.steps)


def prop(case):
    it = Interp()
    for op in case['ops']:
        it.step(op)
    return it.obs()


def machine(tier, record, fail):
    from hypothesis.stateful import RuleBasedStateMachine, rule

    class GraphMachine(RuleBasedStateMachine):
        def __init__(self):
            super().__init__()
            self.it = Interp()
            self.hist = []

        @rule(op=OP)
        def edit(self, op):
            self.hist.append(list(op))
            try:
                self.it.step(list(op))
            except Exception as e:  # noqa
                from vk.run import classify
                v = classify(e)
                if isinstance(v, Violation):
                    fail(dict(ops=self.hist), str(v))
                raise v from e

        def teardown(self):
            if self.hist:
                record(dict(ops=self.hist), self.it.obs())

    return GraphMachine


def all_impls():
    from kyupy import bench
    return [bench.parse(t) for t in IMPLS] + [handmade_impl(), handmade_impl2(), handmade_impl3(), handmade_impl4(0), handmade_impl4(1),
                                              handmade_impl4(2), handmade_impl5(), handmade_impl6()]


def enum_subst(tier):
    """every implementation of the pool x every subset of connected instance inputs and outputs (pins given explicitly, gaps below a connected pin)"""
    for i, impl in enumerate(all_impls()):
        n_in = len([n for n in impl.io_nodes if len(n.ins) == 0])
        n_out = len(impl.io_nodes) - n_in
        for im in range(1 << n_in):
            for om in range(1 << n_out):
                yield dict(impl=i, ins=im, outs=om)


def prop_subst(case):
    from kyupy.circuit import Circuit, Node, Line
    impl = all_impls()[case['impl']]
    before = canon_circuit(impl)
    n_in = len([n for n in impl.io_nodes if len(n.ins) == 0])
    n_out = len(impl.io_nodes) - n_in
    c = Circuit('parent')
    u = Node(c, 'u', 'MYCELL')
    for k in range(n_in):
        if (case['ins'] >> k) & 1:
            p = Node(c, f'i{k}', 'input'); c.io_nodes.append(p)
            Line(c, p, (u, k))
    for k in range(n_out):
        if (case['outs'] >> k) & 1:
            o = Node(c, f'o{k}', 'output'); c.io_nodes.append(o)
            Line(c, (u, k), o)
    ports = [n.name for n in c.io_nodes]
    nlines = len(c.lines)
    structural(c, 'parent before substitute')
    c.substitute(u, impl)
    what = f'after substitute(u, impl {case["impl"]}) with inputs {case["ins"]:b} / outputs {case["outs"]:b} connected'
    structural(c, what)
    if canon_circuit(impl) != before:
        raise Violation(f'{what}: the implementation circuit was modified')
    if [n.name for n in c.io_nodes] != ports:
        raise Violation(f'{what}: port list {[n.name for n in c.io_nodes]} != {ports}')
    for n in c.io_nodes:                 # a connected port stays connected, unless the implementation does not use that input at all
        if n.kind == 'output' and (len(n.ins) == 0 or n.ins[0] is None):
            raise Violation(f'{what}: output port {n.name} lost its driver')
    structural(c.copy(), what + ', copy()')
    return Obs(case['outs'] not in (0, (1 << n_out) - 1) or case['ins'] != (1 << n_in) - 1, [f'impl{case["impl"]}'], checks=3)


PARTS = [Part('subst', prop_subst, enumerate=enum_subst, quick=(2, 0), thorough=(2, 0)),
         Part('history', prop, strategy=cases, quick=(8, 250), thorough=(16, 4000)),
         Part('machine', prop, machine=machine, quick=(4, 60), thorough=(8, 1500))]
