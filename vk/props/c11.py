"""C11 - parsed Verilog and bench netlists simulate as the described netlist."""
import itertools

import numpy as np
from hypothesis import strategies as st

from vk.core import Violation, Obs, Part, HarnessError
from vk import refmodel as rm, strategies as S
from vk.build import pack_bp, unpack_bp
from vk.render_verilog import render_verilog, render_bench, fit_to_lib, LIBS
from vk.props.c09 import structural

ID = 'C11'
RULE = ('Part ties (enumerated): small modules of continuous assignments (constants through one or two named wires, pass-through, a concatenation that uses a wire on both sides) in every statement order, parsed and simulated. Part render: ' +
        'Hypothesis-generated abstract netlists rendered (i) as structural Verilog over each built-in library (hand-written cell/pin tables): scalar '
        'and bus ports with ascending/descending ranges, 1-bit buses, declared/implicit/escaped wire names, wire buses, named pin connections in '
        'random order, unconnected and constant pins, plain and scan flip-flops, physical-only cells (antenna, filler, decap, header) in between, continuous assigns (single, concatenations), random statement '
        'order, whitespace, three comment kinds and attributes, both branchforks settings; (ii) as ISCAS bench text. Oracle: own evaluator on the '
        'abstract netlist: io_nodes names in header order with bus bits in declared range order; after resolve_tlib_cells the truth table '
        '(exhaustive up to 10 sources, else 256 generated patterns) at every output and flip-flop equals the reference; branchforks only adds '
        '1:1 forks named <signal>~<instance>/<pin>; the bench text of the same netlist has the same truth table. non-trivial: text contains an '
        'ascending and a descending bus or an assign, and a cell with >= 3 distinctly behaving pins (AOI/OAI/AO/OA/MUX); distinct by SHA-1. An escaped identifier is ended by a blank, a tab, a line feed or CR LF, chosen per occurrence.')
ASSUMPTIONS = ['supported subset only (named pin connections, single-bit pin expressions); last pin of an AND/NAND cell is never left open (ambiguous arity)',
               'resolved circuits are simulated with LogicSim(m=2) (decided separately by C01)']

LIBNAMES = sorted(LIBS)


@st.composite
def cases(draw, tier):
    big = tier == 'thorough'
    lib = draw(st.sampled_from(LIBNAMES))
    fams = sorted({f for f, n in LIBS[lib]['cells']})
    nl = draw(S.netlists(max_g=20 if big else 9, max_pi=6, max_st=2, families=fams, styles=('cells',), need_d=True, latches=False, po_taps=4))
    # scan-style state elements: a dedicated MUX21 in front of some flip-flops (rendered as one scan flip-flop cell when the library has one)
    srcs = [f'i{k}' for k in range(nl['pi'])] + [f'g{k}' for k in range(len(nl['g']))]
    for k, s_ in enumerate(nl['st']):
        r = draw(st.integers(0, 9999))
        if r % 2 and ('MUX21', 3) in LIBS[lib]['cells']:
            nl['g'].append(dict(f='MUX21', k='mux21', i=[s_['d'], srcs[r % len(srcs)], srcs[(r // 7) % len(srcs)]]))
            s_['d'] = f'g{len(nl["g"]) - 1}'
    # a run of constant outputs (rendered as sized binary/decimal/hex constants when they end up in one assign)
    cbits = draw(st.lists(st.booleans(), min_size=0, max_size=6))
    for b in cbits:
        nl['g'].append(dict(f='INV' if b else 'BUF', k='inv' if b else 'buf', i=[None]))
        nl['po'].append(f'g{len(nl["g"]) - 1}')
        nl['ports'].append(f'o{len(nl["po"]) - 1}')
    return dict(nl=nl, lib=lib, seed=draw(st.integers(1, 1 << 40)), bseed=draw(st.integers(1, 1 << 30)),
                pats=draw(st.lists(st.integers(0, (1 << 20) - 1), min_size=32, max_size=32)))


def table(c, pi_names, st_names, po_names, combos):
    from kyupy.logic_sim import LogicSim
    sims = len(combos)
    s_nodes = c.s_nodes
    nio = len(c.io_nodes)
    ppos = {}
    spos = {}
    for i, n in enumerate(s_nodes):
        (ppos if i < nio else spos).setdefault(n.name, i)
    for nm in pi_names + po_names:
        if nm not in ppos:
            raise Violation(f'port {nm} not found among the ports {[n.name for n in s_nodes[:nio]]}')
    for nm in st_names:
        if nm not in spos:
            raise Violation(f'flip-flop instance {nm} not found among the state elements {[n.name for n in s_nodes[nio:]]}')
    sim = LogicSim(c, sims, m=2)
    stim = np.zeros((len(s_nodes), sims), dtype=np.uint8)
    for j, nm in enumerate(pi_names):
        stim[ppos[nm]] = [3 * cb[j] for cb in combos]
    for j, nm in enumerate(st_names):
        stim[spos[nm]] = [3 * cb[len(pi_names) + j] for cb in combos]
    sim.s[0] = pack_bp(stim)
    sim.s_to_c(); sim.c_prop(); sim.c_to_s()
    res = unpack_bp(sim.s[1], sims)
    return [res[ppos[nm]] for nm in po_names], [res[spos[nm]] for nm in st_names]


def prop(case):
    from kyupy import verilog, bench, techlib
    lib = case['lib']
    tlib = getattr(techlib, lib)
    nl = fit_to_lib(case['nl'], lib)
    text, truth = render_verilog(nl, lib, case['seed'])
    npi, nst = nl['pi'], len(nl['st'])
    n_src = npi + nst
    if n_src <= 10:
        combos = list(itertools.product([0, 1], repeat=n_src))
    else:
        combos = [tuple((p >> j) & 1 for j in range(n_src)) for p in case['pats']]
    sims = len(combos)
    mask = (1 << sims) - 1
    col = lambda j: sum(cb[j] << t for t, cb in enumerate(combos))
    sig = rm.eval2(nl, [col(k) for k in range(npi)], [col(npi + k) for k in range(nst)], mask)
    exp_po = [[3 * ((sig[s] >> t) & 1) for t in range(sims)] for s in nl['po']]
    exp_st = [[3 * ((sig[s['d']] >> t) & 1) for t in range(sims)] for s in nl['st']]

    def check(c, what, pi, po, stn):
        got_po, got_st = table(c, pi, stn, po, combos)
        for k in range(len(po)):
            if list(got_po[k]) != exp_po[k]:
                t = next(i for i in range(sims) if got_po[k][i] != exp_po[k][i])
                raise Violation(f'{what}: output {po[k]} (<- {nl["po"][k]}) = {got_po[k][t]} for inputs/state {combos[t]}, the netlist computes '
                                f'{exp_po[k][t]}\n{text if "bench" not in what else ""}')
        for k in range(len(stn)):
            if list(got_st[k]) != exp_st[k]:
                t = next(i for i in range(sims) if got_st[k][i] != exp_st[k][i])
                raise Violation(f'{what}: next state of {stn[k]} (<- {nl["st"][k]["d"]}) = {got_st[k][t]} for inputs/state {combos[t]}, the netlist '
                                f'computes {exp_st[k][t]}\n{text if "bench" not in what else ""}')

    # sometimes a second module (the same netlist rendered differently) follows in the same text: parse then returns both circuits
    second = None
    if case['seed'] % 4 == 0:
        text2, truth2 = render_verilog(nl, lib, case['seed'] // 4 + 1, modname='second_module')
        second = (text2, truth2)
    circuits = {}
    rejected_first = (case['seed'] // 5) % 3 == 0
    if rejected_first:
        # history: an earlier parse in the same process that is rejected half-way (another rendering of the same netlist - same port and instance
        # names, other wiring details - cut off after one to four fifths): nothing of it may reach the circuits parsed afterwards
        sib = render_verilog(nl, lib, case['seed'] + 17, modname='earlier_rejected')[0]
        try:
            verilog.parse(sib[:len(sib) * (1 + (case['seed'] // 15) % 4) // 5] + '\n', tlib=tlib, branchforks=bool(case['seed'] % 2))
        except Exception:          # rejected (or, cut at a lucky place, accepted); either way not the subject
            pass
    for bf in (False, True):
        if second is None:
            c = verilog.parse(text, tlib=tlib, branchforks=bf)
        else:
            both = verilog.parse(text + '\n' + second[0], tlib=tlib, branchforks=bf)
            if not isinstance(both, list) or len(both) != 2:
                raise Violation(f'text with two modules: parse returned {type(both).__name__} instead of two circuits')
            c, c2 = both
            if c2.name != 'second_module' or [n.name if n is not None else None for n in c2.io_nodes] != second[1]['ports']:
                raise Violation(f'second module: name {c2.name!r}, io_nodes {[n.name if n is not None else None for n in c2.io_nodes]} != {second[1]["ports"]}\n{text}\n{second[0]}')
            structural(c2, f'second module (branchforks={bf})')
            c2.resolve_tlib_cells(tlib)
            text_saved, text = text, text + '\n' + second[0]
            check(c2, f'verilog/{lib} second module in one text, branchforks={bf}', second[1]['pi'], second[1]['po'], second[1]['st'])
            text = text_saved
        if c.name != 'top':
            raise Violation(f'module name {c.name!r}')
        names = [n.name if n is not None else None for n in c.io_nodes]
        if names != truth['ports']:
            raise Violation(f'branchforks={bf}: io_nodes {names} != ports in declaration order {truth["ports"]}\n{text}')
        structural(c, f'parsed circuit (branchforks={bf})')
        circuits[bf] = c
    # branch forks only insert forks
    c0, c1 = circuits[False], circuits[True]
    k0 = {(n.name, n.kind) for n in c0.nodes}
    k1 = {(n.name, n.kind) for n in c1.nodes}
    if not k0 <= k1:
        raise Violation(f'branchforks=True lost nodes {sorted(k0 - k1)[:5]}')
    for nm, kind in k1 - k0:
        n = c1.forks.get(nm) if kind == '__fork__' else None
        if n is None or '~' not in nm or '/' not in nm or len(n.ins) != 1 or len(n.outs) != 1:
            raise Violation(f'branchforks=True added {nm} ({kind}) which is not a 1:1 fork named <signal>~<instance>/<pin>')
        sigpart, rest = nm.split('~', 1)
        if n.ins[0].driver.name != sigpart or n.outs[0].reader.name != rest.rsplit('/', 1)[0]:
            raise Violation(f'branch fork {nm} connects {n.ins[0].driver.name} to {n.outs[0].reader.name}')
    if len(c1.lines) - len(c0.lines) != len(k1 - k0):
        raise Violation('branchforks=True changed the number of lines by more than the inserted forks')
    for bf, c in circuits.items():
        c.resolve_tlib_cells(tlib)
        structural(c, f'resolved circuit (branchforks={bf})')
        check(c, f'verilog/{lib} branchforks={bf}', truth['pi'], truth['po'], truth['st'])
    # bench rendering of the original (un-fitted) netlist
    onl = case['nl']
    rb = render_bench(onl, case['bseed'])
    labels = [lib] + (['after_a_rejected_parse'] if rejected_first else [])
    if rb is not None:
        btext, bt = rb
        if rejected_first:
            sibb = render_bench(onl, case['bseed'] + 1)
            try:
                bench.parse(sibb[0][:len(sibb[0]) * 3 // 5] + ' = = (\n')
            except Exception:
                pass
        cb = bench.parse(btext)
        sigb = rm.eval2(onl, [col(k) for k in range(npi)], [col(npi + k) for k in range(nst)], mask)
        got_po, got_st = table(cb, bt['pi'], bt['st'], bt['po'], combos)
        for k, s_ in enumerate(onl['po']):
            e = [3 * ((sigb[s_] >> t) & 1) for t in range(sims)]
            if list(got_po[k]) != e:
                raise Violation(f'bench: output {bt["po"][k]} (<- {s_}) differs from the netlist function\n{btext}')
        for k, s_ in enumerate(onl['st']):
            e = [3 * ((sigb[s_['d']] >> t) & 1) for t in range(sims)]
            if list(got_st[k]) != e:
                raise Violation(f'bench: next state of {bt["st"][k]} differs from the netlist function\n{btext}')
        labels.append('bench_too')
    asc = ':' in text and any(a < b for a, b in _ranges(text))
    desc = any(a > b for a, b in _ranges(text))
    has_assign = 'assign' in text
    complex_cell = any(g['f'] in rm.FIXED and rm.FIXED[g['f']] >= 3 for k, g in enumerate(nl['g']) if k not in truth['skipped'])
    if asc: labels.append('ascending_bus')
    if desc: labels.append('descending_bus')
    if has_assign: labels.append('assign')
    if complex_cell: labels.append('complex_cell')
    if truth['skipped']: labels.append('scan_ff')
    if truth.get('nphys'): labels.append('physical_only_cells')
    if second is not None: labels.append('two_modules_in_one_text')
    if '\\' in text: labels.append('escaped_names')
    import re as _re
    if _re.search(r'assign [^;]*=\s*cw\d+\s*;[^;]*assign cw\d+', text): labels.append('constant_through_wire_use_before_definition')
    return Obs(((asc and desc) or has_assign) and complex_cell, labels, checks=2 * sims * (len(nl['po']) + nst))


def _ranges(text):
    import re
    return [(int(a), int(b)) for a, b in re.findall(r'\[(\d+)\s*:\s*(\d+)\]', text)]


TIE_STMTS = {   # continuous assignments of a small module with inputs a, b and outputs o0..o3; "assignments may appear in any order"
    'A': "assign o0 = w0;", 'B': "assign w0 = w1;", 'C': "assign w1 = 1'b1;", 'D': "assign o1 = 1'b0;", 'E': "assign o2 = a;",
    'F': "assign {o3, w2} = {w2, b};", 'G': "assign o3 = w3;", 'H': "assign w3 = b;"}
TIE_SETS = ['ABCD', 'ABC', 'ABCDE', 'DE', 'ABCF', 'ABCGH', 'CDGH']      # every wire used has a driver (what an output assigned from an undriven wire reports is not settled by the statement)


def enum_ties(tier):
    """every order of the assign statements of a few constant / pass-through modules"""
    for sel in TIE_SETS:
        perms = list(itertools.permutations(sel))
        step = 1 if len(perms) <= 24 or tier == 'thorough' else 5
        for j in range(0, len(perms), step):
            yield dict(stmts=''.join(perms[j]))


def prop_ties(case):
    from kyupy import verilog
    from kyupy.logic_sim import LogicSim
    sel = case['stmts']
    outs = [o for o in ('o0', 'o1', 'o2', 'o3') if any(o in TIE_STMTS[k].split('=')[0] for k in sel)]
    wires = sorted({w for k in sel for w in ('w0', 'w1', 'w2', 'w3') if w in TIE_STMTS[k]})
    text = f"module tie (a, b, {', '.join(outs)});\n  input a, b;\n  output {', '.join(outs)};\n" + \
           (f"  wire {', '.join(wires)};\n" if wires else '') + ''.join(f'  {TIE_STMTS[k]}\n' for k in sel) + 'endmodule\n'
    c = verilog.parse(text)
    structural(c, 'parsed tie module')
    if [n.name for n in c.io_nodes] != ['a', 'b'] + outs:
        raise Violation(f'ports {[n.name for n in c.io_nodes]} != {["a", "b"] + outs}\n{text}')
    sim = LogicSim(c, 4, m=2)
    mv = np.zeros((sim.s_len, 4), dtype=np.uint8)
    mv[0] = [0, 3, 0, 3]; mv[1] = [0, 0, 3, 3]
    sim.s[0] = pack_bp(mv)
    sim.s_to_c(); sim.c_prop(); sim.c_to_s()
    res = unpack_bp(sim.s[1], 4)
    want = {'o0': [3, 3, 3, 3] if 'B' in sel and 'C' in sel else [0, 0, 0, 0], 'o1': [0, 0, 0, 0], 'o2': [0, 3, 0, 3], 'o3': [0, 0, 3, 3]}
    for j, o in enumerate(outs):
        if [int(x) for x in res[2 + j]] != want[o]:
            raise Violation(f'output {o} = {[int(x) for x in res[2 + j]]} for (a, b) = 00, 10, 01, 11; the module computes {want[o]}\n{text}')
    return Obs(sel.index('C') > 0 if 'C' in sel else True, ['use_before_definition' if ('A' in sel and 'C' in sel and sel.index('A') < sel.index('C')) else 'definition_first',
                      f'{len(sel)}_statements'], checks=len(outs) * 4)


PARTS = [Part('ties', prop_ties, enumerate=enum_ties, quick=(2, 0), thorough=(4, 0)),
         Part('render', prop, strategy=cases, quick=(8, 120), thorough=(16, 1500))]
