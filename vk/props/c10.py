"""C10 - copy, pickle, fork elimination and cell substitution preserve function."""
import itertools
import pickle

import numpy as np
from hypothesis import strategies as st

from vk.core import Violation, Obs, Part, HarnessError
from vk import refmodel as rm, strategies as S
from vk.build import build, pack_bp, unpack_bp
from vk.props.c09 import structural, canon_circuit
from vk.props.c19 import LIBS

ID = 'C10'
RULE = ('Part hand (complete enumeration): six hand-wired implementations (fork chains before a port, a port read inside that also drives another port, several ports on one fork, cell-kind ports read inside, edited in place) x every non-empty subset of connected instance outputs x {as is, copy, pickle}: structure valid, ports kept, truth table as the implementation computes. Part cells (complete enumeration): every cell of the five built-in libraries x 4 connection variants (all pins connected; every second '
        'input open; first output open; only the first input and last output connected) instantiated alone between port cells, then '
        'resolve_tlib_cells: must succeed, keep the port list, give a structurally valid circuit, and the truth table over ports and state elements '
        '(all combinations) must equal the stand-alone simulation of the implementation circuit with unconnected inputs reading 0, '
        'also after copy + pickle + eliminate_1to1_forks of the resolved circuit. '
        'Part hier (Hypothesis): hierarchical designs - 1..3 generated implementation circuits (multi-output, outputs read internally, inputs with '
        '0/1/many readers, internal flip-flops, no output, empty) instantiated 1..4 times with random pin subsets connected, top-level flip-flops, '
        'instance outputs feeding other instances - x transformation sequences over {copy, pickle, eliminate_1to1_forks, substitute(one instance), '
        'resolve_tlib_cells}. Oracle: own hierarchical evaluator (truth table, exhaustive up to 10 sources else 256 generated patterns) vs LogicSim '
        'of the transformed circuit; port names/order and pre-existing state-element names preserved; copy/pickle leave the original untouched; '
        'structural validity after every step. non-trivial: a substituted cell with >= 2 outputs, an ignored or unconnected pin, or an instance '
        'feeding another instance; distinct by SHA-1 of the case / (library, cell, variant).')
ASSUMPTIONS = ['transformed circuits are simulated with LogicSim(m=2) (decided separately by C01)',
               'relative order of state elements is only asserted while no node was removed (substitute documents index changes for empty implementations)']


# ------------------------------------------------------------------------------------------ cells

def enum_cells(tier):
    import kyupy.techlib as tl
    for lib in LIBS:
        for name in sorted(getattr(tl, lib).cells):
            for variant in range(4):
                yield dict(lib=lib, cell=name, variant=variant)


def sim_table(c, in_names, st_names, out_names, combos):
    """simulates c for all combos (tuples over in_names + st_names); returns dict name -> list of codes for out_names + st_names (next state).
    Ports are looked up among io_nodes, state elements among the remaining s_nodes (a port fork and a cell may share a name)."""
    from kyupy.logic_sim import LogicSim
    sims = len(combos)
    s_nodes = c.s_nodes
    nio = len(c.io_nodes)
    ppos, spos = {}, {}
    for i, n in enumerate(s_nodes):
        (ppos if i < nio else spos).setdefault(n.name, i)
    sim = LogicSim(c, sims, m=2)
    stim = np.zeros((len(s_nodes), sims), dtype=np.uint8)
    for j, nm in enumerate(in_names + st_names):
        tab = ppos if j < len(in_names) else spos
        if nm not in tab:
            raise Violation(f'port/state element {nm} not found among {[n.name for n in s_nodes]}')
        stim[tab[nm]] = [3 * cb[j] for cb in combos]
    sim.s[0] = pack_bp(stim)
    sim.s_to_c(); sim.c_prop(); sim.c_to_s()
    res = unpack_bp(sim.s[1], sims)
    out = {}
    for j, nm in enumerate(out_names + st_names):
        tab = ppos if j < len(out_names) else spos
        if nm not in tab:
            raise Violation(f'port/state element {nm} not found among {[n.name for n in s_nodes]}')
        out[('o' if j < len(out_names) else 's', nm)] = [int(x) for x in res[tab[nm]]]
    return out


def prop_cells(case):
    import kyupy.techlib as tl
    from kyupy.circuit import Circuit, Node, Line
    lib, name, variant = case['lib'], case['cell'], case['variant']
    tlib = getattr(tl, lib)
    impl, pins = tlib.cells[name]
    ins = [p for p, (i, o) in sorted(pins.items(), key=lambda kv: kv[1][0]) if not o]
    outs = [p for p, (i, o) in sorted(pins.items(), key=lambda kv: kv[1][0]) if o]
    if variant == 0:
        cin, cout = list(ins), list(outs)
    elif variant == 1:
        cin, cout = ins[::2], list(outs)
    elif variant == 2:
        cin, cout = list(ins), outs[1:]
    else:
        cin, cout = ins[:1], outs[-1:]
    c = Circuit('top')
    inst = Node(c, 'u1', name)
    for p in cin:
        n = Node(c, f'in_{p}', 'input'); c.io_nodes.append(n)
        f = Node(c, f'in_{p}')
        Line(c, n, f); Line(c, f, (inst, tlib.pin_index(name, p)))
    for p in cout:
        n = Node(c, f'out_{p}', 'output'); c.io_nodes.append(n)
        f = Node(c, f'out_{p}')
        Line(c, (inst, tlib.pin_index(name, p)), f); Line(c, f, n)
    io_before = [n.name for n in c.io_nodes]
    c.resolve_tlib_cells(tlib)
    structural(c, f'{lib}.{name} variant {variant} after resolve_tlib_cells')
    if [n.name for n in c.io_nodes] != io_before:
        raise Violation(f'{lib}.{name}: port list changed from {io_before} to {[n.name for n in c.io_nodes]}')
    if any(n.kind in tlib.cells for n in c.nodes):
        raise Violation(f'{lib}.{name}: library cells left after resolve_tlib_cells')
    # reference: stand-alone implementation, unconnected inputs read 0
    impl_state = [n.name for n in impl.s_nodes[len(impl.io_nodes):]]
    if len(impl_state) > 1:
        raise HarnessError('cell with more than one state element')
    st_after = [n.name for n in c.s_nodes[len(c.io_nodes):]]
    if len(st_after) != len(impl_state) and cout:
        raise Violation(f'{lib}.{name}: implementation has state elements {impl_state}, resolved circuit has {st_after}')
    n_src = len(cin) + len(st_after)
    combos = list(itertools.product([0, 1], repeat=n_src))
    if not cout and not st_after:
        return Obs(False, [lib, f'variant{variant}', 'nothing_observable'])
    got = sim_table(c, [f'in_{p}' for p in cin], st_after, [f'out_{p}' for p in cout], combos)
    ref_combos = []
    for cb in combos:
        d = dict(zip(cin, cb[:len(cin)]))
        ref_combos.append(tuple(d.get(p, 0) for p in ins) + tuple(cb[len(cin):len(cin) + len(impl_state)]))
    if st_after:
        ref = sim_table(impl, ins, impl_state, outs, ref_combos)
    else:
        # state element (if any) was removed together with unobservable logic: only compare outputs that do not depend on it
        ref = sim_table(impl, ins, impl_state, outs, [r + (0,) * (len(impl_state) - (len(r) - len(ins))) for r in ref_combos]) if not impl_state \
            else None
    if ref is not None:
        for p in cout:
            if got[('o', f'out_{p}')] != ref[('o', p)]:
                k = next(i for i in range(len(combos)) if got[('o', f'out_{p}')][i] != ref[('o', p)][i])
                raise Violation(f'{lib}.{name} variant {variant}: output {p} = {got[("o", f"out_{p}")][k]} for connected inputs '
                                f'{dict(zip(cin, combos[k]))} state {combos[k][len(cin):]}, implementation alone gives {ref[("o", p)][k]}')
        for sa, si in zip(st_after, impl_state):
            if got[('s', sa)] != ref[('s', si)]:
                raise Violation(f'{lib}.{name} variant {variant}: next state of {sa} differs from the implementation alone')
    # composition: copy -> pickle -> eliminate_1to1_forks of the resolved circuit keeps ports, state elements and function
    c2 = pickle.loads(pickle.dumps(c.copy()))
    if canon_circuit(c2) != canon_circuit(c):
        raise Violation(f'{lib}.{name} variant {variant}: copy/pickle of the resolved circuit differs from it')
    c2.eliminate_1to1_forks()
    structural(c2, f'{lib}.{name} variant {variant} after copy, pickle, eliminate_1to1_forks')
    if [n.name for n in c2.io_nodes] != io_before or [n.name for n in c2.s_nodes[len(c2.io_nodes):]] != st_after:
        raise Violation(f'{lib}.{name} variant {variant}: ports/state elements changed by copy, pickle, eliminate_1to1_forks')
    got2 = sim_table(c2, [f'in_{p}' for p in cin], st_after, [f'out_{p}' for p in cout], combos)
    if got2 != got:
        raise Violation(f'{lib}.{name} variant {variant}: function changed by copy, pickle, eliminate_1to1_forks of the resolved circuit')
    labels = [lib, f'variant{variant}']
    if len(outs) >= 2: labels.append('multi_output')
    if impl_state: labels.append('sequential')
    if not outs: labels.append('no_output')
    impl_readers = {n.name: len(n.outs) for n in impl.io_nodes if len(n.ins) == 0}
    if any(v == 0 for v in impl_readers.values()): labels.append('ignored_input')
    return Obs(len(outs) >= 2 or variant > 0 or any(v == 0 for v in impl_readers.values()), labels, checks=len(combos) * max(1, len(cout)))


# ------------------------------------------------------------------------------------------- hier

@st.composite
def hier_cases(draw, tier):
    nsubs = draw(st.integers(1, 3))
    subs = []
    for _ in range(nsubs):
        shape = draw(st.sampled_from(['normal', 'normal', 'normal', 'noout', 'empty']))
        if shape == 'empty':
            subs.append(dict(pi=0, st=[], g=[], po=[], style='forks', w={}, ports=[], rev=False, empty=True))
            continue
        nl = draw(S.netlists(max_g=5, max_pi=3, max_st=1, styles=('forks',), need_d=True, clock_pins=False, latches=False, po_taps=2))
        if shape == 'noout':
            nl['po'] = []
            nl['ports'] = [p for p in nl['ports'] if p[0] == 'i']
        subs.append(nl)
    npi = draw(st.integers(1, 4))
    ninst = draw(st.integers(1, 4))
    ndff = draw(st.integers(0, 2))
    raw = draw(st.lists(st.tuples(st.integers(0, 99), st.lists(st.integers(0, 9999), min_size=3, max_size=3), st.integers(0, 7)),
                        min_size=ninst, max_size=ninst))
    rawd = draw(st.lists(st.integers(0, 9999), min_size=ndff, max_size=ndff))
    rawpo = draw(st.lists(st.integers(0, 9999), min_size=1, max_size=4))
    seq = draw(st.lists(st.tuples(st.sampled_from(['copy', 'pickle', 'elim', 'subst', 'subst', 'resolve']), st.integers(0, 9)), min_size=1, max_size=5))
    pats = draw(st.lists(st.integers(0, (1 << 16) - 1), min_size=16, max_size=16))
    return dict(warm=draw(st.sampled_from([0, 0, 1])), pfx=draw(st.sampled_from([0, 0, 1])), subs=subs, npi=npi, raw=[[a, list(b), c] for a, b, c in raw], rawd=rawd, rawpo=rawpo, seq=[list(x) for x in seq], pats=pats)


def elaborate(case):
    """raw integers -> concrete hierarchical design (instances, pin sources, dffs, outputs)"""
    subs = case['subs']
    avail = [f'i{k}' for k in range(case['npi'])] + [f'f{k}' for k in range(len(case['rawd']))]
    insts = []
    for i, (sj, rp, openmask) in enumerate(case['raw']):
        sub = subs[sj % len(subs)]
        pins = []
        in_order = port_order(sub)[0] if not sub.get('empty') else []
        for j in range(sub['pi']):
            # an instance pin may stay open unless that would leave the *last* pin of a variadic AND/NAND open
            # (the arity of such a gate is then ambiguous, see DESIGN.md section 6)
            src = f'i{in_order[j]}'
            trailing = any(g['f'] in ('AND', 'NAND') and g['i'] and g['i'][-1] == src and len(g['i']) > 2 for g in sub['g'])
            if (openmask >> j) & 1 and j > 0 and not trailing:
                pins.append(None)
            else:
                pins.append(avail[rp[j % len(rp)] % len(avail)])
        insts.append(dict(sub=sj % len(subs), pins=pins))
        for o in range(len(sub['po'])):
            avail.append(f'x{i}.{o}')
    dffs = [avail[r % len(avail)] for r in case['rawd']]
    po = [avail[r % len(avail)] for r in case['rawpo']]
    return insts, dffs, po


def build_top(case):
    from kyupy.circuit import Circuit, Node, Line
    insts, dffs, po = elaborate(case)
    c = Circuit('top')
    srcnode = {}
    # with 'pfx' the primary inputs (and their forks) are called x<k>i: the name of instance x<k> is then a prefix of a port name
    nm = (lambda s_: f'x{s_[1:]}i' if s_[0] == 'i' else s_) if case.get('pfx') else (lambda s_: s_)
    for k in range(case['npi']):
        n = Node(c, nm(f'i{k}'), 'input'); c.io_nodes.append(n)
        srcnode[f'i{k}'] = (n, 0)
    dnodes = []
    for k in range(len(dffs)):
        n = Node(c, f'f{k}', 'DFF'); dnodes.append(n)
        srcnode[f'f{k}'] = (n, 0)
    inodes = []
    for i, ins in enumerate(insts):
        n = Node(c, f'x{i}', f'SUB{ins["sub"]}'); inodes.append(n)
        for o in range(len(case['subs'][ins['sub']]['po'])):
            srcnode[f'x{i}.{o}'] = (n, o)
    forks = {}

    def fork(src):
        if src not in forks:
            f = Node(c, nm(src))
            d, pin = srcnode[src]
            Line(c, (d, pin), f)
            forks[src] = f
        return forks[src]

    for i, ins in enumerate(insts):
        for j, src in enumerate(ins['pins']):
            if src is not None:
                Line(c, fork(src), (inodes[i], j))
    for k, src in enumerate(dffs):
        Line(c, fork(src), (dnodes[k], 0))
    for k, src in enumerate(po):
        n = Node(c, f'o{k}', 'output'); c.io_nodes.append(n)
        Line(c, fork(src), n)
    return c, insts, dffs, po


def port_order(sub):
    return [int(p[1:]) for p in sub['ports'] if p[0] == 'i'], [int(p[1:]) for p in sub['ports'] if p[0] == 'o']


class Lib:
    """minimal stand-in for a technology library: resolve_tlib_cells only reads .cells[kind][0]"""
    def __init__(self, cells):
        self.cells = cells


def reference(case, insts, dffs, po, pi_bits, dff_bits, inst_state, mask):
    sig = {}
    for k, v in enumerate(pi_bits): sig[f'i{k}'] = v
    for k, v in enumerate(dff_bits): sig[f'f{k}'] = v
    nxt_inst = []
    for i, ins in enumerate(insts):
        sub = case['subs'][ins['sub']]
        in_order, out_order = port_order(sub)
        pv = [0] * sub['pi']
        for j, s in enumerate(ins['pins']):          # pin position j is the j-th input port of the implementation
            pv[in_order[j]] = sig[s] if s is not None else 0
        ss = rm.eval2(sub, pv, inst_state[i], mask)
        for o, k in enumerate(out_order):            # output position o is the o-th output port
            sig[f'x{i}.{o}'] = ss[sub['po'][k]]
        nxt_inst.append([ss[s['d']] for s in sub['st']])
    return [sig[s] for s in po], [sig[s] for s in dffs], nxt_inst


def prop_hier(case):
    c, insts, dffs, po = build_top(case)
    subs = case['subs']
    impls = []
    for nl in subs:
        if nl.get('empty'):
            from kyupy.circuit import Circuit
            impls.append(Circuit('empty'))
        else:
            impls.append(build(nl, name='impl').c)
            # an implementation may have been used before with its ports in another order and then corrected in place (same node, line and port
            # counts): later substitutions follow the current port list
            ic = impls[-1]
            if case.get('warm') and len(ic.io_nodes) >= 2:
                from kyupy.circuit import Circuit, Node
                final = list(ic.io_nodes)
                for i in range(len(final)):
                    ic.io_nodes[i] = final[(i + 1) % len(final)]
                scratch = Circuit('scratch')
                try:
                    scratch.substitute(Node(scratch, 'u', 'SUBX'), ic)
                except Exception:       # the rotated interface need not be a meaningful cell; only the real uses below are judged
                    pass
                for i, n in enumerate(final):
                    ic.io_nodes[i] = n
    lib = Lib({f'SUB{j}': (impls[j], {}) for j in range(len(subs))})
    io_names = [n.name for n in c.io_nodes]
    removed_node = False
    labels = set()
    if case.get('warm'): labels.add('implementation_used_before_and_edited_in_place')
    for op, arg in case['seq']:
        before_state = [n.name for n in c.s_nodes[len(c.io_nodes):]]
        if op == 'copy':
            snap = canon_circuit(c)
            c2 = c.copy()
            if canon_circuit(c) != snap: raise Violation('copy() modified the original')
            if canon_circuit(c2) != snap: raise Violation('copy() differs from the original')
            c = c2
        elif op == 'pickle':
            snap = canon_circuit(c)
            c2 = pickle.loads(pickle.dumps(c))
            if canon_circuit(c) != snap: raise Violation('pickling modified the original')
            if canon_circuit(c2) != snap: raise Violation('pickle round trip differs from the original')
            c = c2
        elif op == 'elim':
            c.eliminate_1to1_forks()
            labels.add('eliminated')
        elif op == 'subst':
            cand = [n for n in c.nodes if n.kind in lib.cells]
            if cand:
                n = cand[arg % len(cand)]
                impl = lib.cells[n.kind][0]
                nn = len(c.nodes)
                c.substitute(n, impl)
                labels.add('substitute')
                if len(c.nodes) < nn: removed_node = True
        elif op == 'resolve':
            nn = len(c.nodes)
            c.resolve_tlib_cells(lib)
            labels.add('resolve')
            removed_node = True if len(c.nodes) < nn else removed_node
        structural(c, f'after {op}')
        if [n.name for n in c.io_nodes] != io_names:
            raise Violation(f'{op}: port names/order changed from {io_names} to {[n.name for n in c.io_nodes]}')
        after_state = [n.name for n in c.s_nodes[len(c.io_nodes):]]
        if not set(before_state) <= set(after_state):
            raise Violation(f'{op}: state elements {sorted(set(before_state) - set(after_state))} disappeared')
        if [x for x in after_state if x in before_state] != before_state:
            # known finding F21: operations that remove nodes (swap-with-last deletion) permute the flip-flop order of s_nodes.
            # Excluded from the search (counted) unless the case asks for the strict check (the committed witness does).
            if op in ('elim', 'subst', 'resolve') and not case.get('strict_order'):
                labels.add('excluded_known_F21')
            else:
                raise Violation(f'{op}: order of state elements changed from {before_state} to {after_state}')
    nn = len(c.nodes)
    c.resolve_tlib_cells(lib)
    structural(c, 'after final resolve_tlib_cells')
    if any(n.kind in lib.cells for n in c.nodes):
        raise Violation('unresolved instances left after resolve_tlib_cells')
    if [n.name for n in c.io_nodes] != io_names:
        raise Violation(f'resolve: port names/order changed from {io_names} to {[n.name for n in c.io_nodes]}')
    # names of internal state elements after substitution
    st_names = [f'f{k}' for k in range(len(dffs))]
    inst_st_names = []
    for i, ins in enumerate(insts):
        sub = subs[ins['sub']]
        names = []
        desig = None
        if sub['po']:
            src = sub['po'][port_order(sub)[1][0]]
            desig = 's' + src[1:] if src[0] in 'sn' else src
        for k in range(len(sub['st'])):
            names.append(f'x{i}' if desig == f's{k}' else f'x{i}~s{k}')
        inst_st_names.append(names)
    present = {n.name for n in c.s_nodes[len(c.io_nodes):]}
    all_state = st_names + [nm for names in inst_st_names for nm in names]
    # state elements inside instances whose outputs are all unobservable may be removed with the dangling logic: only those may be missing
    missing = [nm for nm in all_state if nm not in present]
    for nm in missing:
        if nm in st_names:
            raise Violation(f'top-level flip-flop {nm} disappeared')
    used_state = [nm for nm in all_state if nm in present]
    n_src = case['npi'] + len(used_state)
    if n_src <= 10:
        combos = list(itertools.product([0, 1], repeat=n_src))
    else:
        combos = [tuple((p >> j) & 1 for j in range(n_src)) for p in case['pats']] + \
                 [tuple(((p * 2654435761) >> (j + 3)) & 1 for j in range(n_src)) for p in case['pats']]
    sims = len(combos)
    mask = (1 << sims) - 1
    col = lambda j: sum(cb[j] << t for t, cb in enumerate(combos))
    pi_bits = [col(k) for k in range(case['npi'])]
    val = {nm: col(case['npi'] + j) for j, nm in enumerate(used_state)}
    dff_bits = [val[f'f{k}'] for k in range(len(dffs))]
    inst_state = [[val.get(nm, 0) for nm in names] for names in inst_st_names]
    rpo, rdff, rinst = reference(case, insts, dffs, po, pi_bits, dff_bits, inst_state, mask)
    # a removed internal state element must not influence anything observable: re-evaluate with its value flipped
    if missing:
        inst_state2 = [[val.get(nm, mask) for nm in names] for names in inst_st_names]
        rpo2, rdff2, rinst2 = reference(case, insts, dffs, po, pi_bits, dff_bits, inst_state2, mask)
        keep = [(i, k) for i, names in enumerate(inst_st_names) for k, nm in enumerate(names) if nm in present]
        if rpo2 != rpo or rdff2 != rdff or any(rinst2[i][k] != rinst[i][k] for i, k in keep):
            raise Violation(f'state elements {missing} were removed by substitution although they influence observable signals')
    got = sim_table(c, [(f'x{k}i' if case.get('pfx') else f'i{k}') for k in range(case['npi'])], used_state, [f'o{k}' for k in range(len(po))], combos)

    def cmp(name, bits, what):
        exp = [(bits >> t) & 1 for t in range(sims)]
        name = (('o' if what == 'output' else 's'), name)
        g = [x // 3 if x in (0, 3) else x for x in got[name]]
        if g != exp:
            t = next(i for i in range(sims) if g[i] != exp[i])
            raise Violation(f'{what} {name}: simulation of the transformed circuit gives {got[name][t]} for inputs/state {combos[t]} '
                            f'({[f"i{k}" for k in range(case["npi"])] + used_state}), hierarchical reference gives {exp[t]}; sequence {case["seq"]}')

    for k in range(len(po)):
        cmp(f'o{k}', rpo[k], 'output')
    for k in range(len(dffs)):
        cmp(f'f{k}', rdff[k], 'next state of')
    for i, names in enumerate(inst_st_names):
        for k, nm in enumerate(names):
            if nm in present:
                if len(c.cells[nm].ins) == 0:
                    continue        # data pin fed by an unconnected instance pin: the element has no input at all, nothing is captured
                cmp(nm, rinst[i][k], 'next state of')
    multi = any(len(subs[ins['sub']]['po']) >= 2 for ins in insts)
    openpin = any(p is None for ins in insts for p in ins['pins'])
    chain = any(p is not None and p[0] == 'x' for ins in insts for p in ins['pins'])
    ign = any(len(rm.readers(subs[ins['sub']]).get(f'i{port_order(subs[ins["sub"]])[0][j]}', [])) == 0 and ins['pins'][j] is not None
              for ins in insts for j in range(subs[ins['sub']]['pi']))
    if multi: labels.add('multi_output_cell')
    if openpin: labels.add('unconnected_pin')
    if chain: labels.add('instance_feeds_instance')
    if ign: labels.add('ignored_input')
    if any(not subs[ins['sub']]['po'] for ins in insts): labels.add('cell_without_output')
    if any(subs[ins['sub']].get('empty') for ins in insts): labels.add('empty_implementation')
    if missing: labels.add('unobservable_state_removed')
    return Obs(multi or openpin or chain or ign, sorted(labels), checks=sims * (len(po) + len(used_state)))


def enum_hub(tier):
    for n in ([300, 1000] if tier == 'quick' else [200, 300, 700, 70000]):
        yield dict(fanout=n)


def prop_hub(case):
    """one signal with hundreds / tens of thousands of readers: copy, pickle and fork elimination keep structure and function"""
    from vk import bigcirc
    from kyupy.logic_sim import LogicSim
    sims = 4
    mask = (1 << sims) - 1
    va, vb = 0b0011, 0b0101
    c, exp = bigcirc.hub(case['fanout'], va, vb, mask)
    snap = canon_circuit(c)

    def outputs(cc):
        sim = LogicSim(cc, sims, m=2)
        stim = np.zeros((len(cc.s_nodes), sims), dtype=np.uint8)
        stim[0] = [3 * ((va >> l) & 1) for l in range(sims)]
        stim[1] = [3 * ((vb >> l) & 1) for l in range(sims)]
        sim.s[0] = pack_bp(stim)
        sim.s_to_c(); sim.c_prop(); sim.c_to_s()
        return unpack_bp(sim.s[1], sims)[2:]

    want = np.array([[3 * ((e >> l) & 1) for l in range(sims)] for e in exp], dtype=np.uint8)
    for what, make in (('copy()', lambda: c.copy()), ('pickle round trip', lambda: pickle.loads(pickle.dumps(c))),
                       ('copy + eliminate_1to1_forks', lambda: c.copy())):
        c2 = make()
        if 'eliminate' in what:
            c2.eliminate_1to1_forks()
        elif canon_circuit(c2) != snap:
            raise Violation(f'{what} of a circuit with a fork of {case["fanout"]} readers differs from the original')
        if [n.name for n in c2.io_nodes] != [n.name for n in c.io_nodes]:
            raise Violation(f'{what}: port list changed')
        got = outputs(c2)
        if not np.array_equal(got, want):
            bad = int(np.argwhere(got != want)[0][0])
            raise Violation(f'{what}: output o{bad} of the circuit with a fork of {case["fanout"]} readers no longer computes its function')
    if canon_circuit(c) != snap:
        raise Violation('copy/pickle modified the original')
    return Obs(True, ['fanout>255' if case['fanout'] < 65536 else 'fanout>65535'], checks=3 * case['fanout'])


BENCH_BASES = {     # statements, indices of the output declarations, indices of the gates
    'A': (['input(a)', 'input(b)', 'output(q)', 'output(o)', 'output(r)', 'n1=and(a,b)', 'n2=not(n1)', 'o=buf(n2)', 'q=not(o)', 'r=xor(n1,b)'], (2, 3, 4), (5, 6, 7, 8, 9)),
    'B': (['input(a, b)', 'output(q)', 'output(o)', 'n1=and(a,b)', 'n2=not(n1)', 'o=buf(n2)', 'q=not(o)'], (1, 2), (3, 4, 5, 6)),
    'C': (['input(a)', 'input(b)', 'output(r)', 'output(o)', 'n1=and(a,b)', 'o=not(n1)', 'n3=buf(o)', 'r=xor(n3,b)'], (2, 3), (4, 5, 6, 7)),
}
BENCH_FN = {'q': lambda a, b: a & b, 'o': lambda a, b: 1 - (a & b), 'r': lambda a, b: (a & b) ^ b}
BENCH_FN_C = {'o': lambda a, b: 1 - (a & b), 'r': lambda a, b: (1 - (a & b)) ^ b}


def enum_benchports(tier):
    """statement orders of small bench netlists whose ports are forks: declarations before, between and after the gates (the order decides
    which fork or gate owns the highest node index while forks are eliminated; a port read by exactly one gate is itself a 1:1 fork)
    x {elim, copy + elim, pickle + elim, elim twice}. Bases B and C: every order; base A: a pseudo-random sample."""
    import itertools
    k = 0
    for base in ('B', 'C'):
        n = len(BENCH_BASES[base][0])
        for order in itertools.permutations(range(n)):
            k += 1
            if tier == 'quick' and base == 'C' and k % 8:
                continue
            yield dict(base=base, order=list(order), how=['elim', 'copy', 'pickle', 'twice'][(k // 3) % 4])
    n = len(BENCH_BASES['A'][0])
    x = 0x2545f491
    count = 150 if tier == 'quick' else 6000
    seen = set()
    while len(seen) < count:
        order = list(range(n))
        for i in range(n - 1, 0, -1):
            x = (x * 6364136223846793005 + 1442695040888963407) % (1 << 64)
            j = (x >> 33) % (i + 1)
            order[i], order[j] = order[j], order[i]
        if tuple(order) not in seen:
            seen.add(tuple(order))
            yield dict(base='A', order=order, how=['elim', 'copy', 'pickle', 'twice'][len(seen) % 4])


def prop_benchports(case):
    from kyupy import bench
    stmts, decl, gates = BENCH_BASES[case['base']]
    fns = BENCH_FN_C if case['base'] == 'C' else BENCH_FN
    text = '\n'.join(stmts[i] for i in case['order']) + '\n'
    c = bench.parse(text)
    names = [n.name for n in c.io_nodes]
    combos = [(a, b) for a in (0, 1) for b in (0, 1)]
    outs = [nm for nm in names if nm in fns]
    want = {('o', nm): [3 * fns[nm](a, b) for a, b in combos] for nm in outs}
    if sim_table(c, ['a', 'b'], [], outs, combos) != want:
        return Obs(False, ['parsed_netlist_differs'])        # the parser is C11's subject; nothing to compare against here
    c2 = c.copy() if case['how'] == 'copy' else pickle.loads(pickle.dumps(c)) if case['how'] == 'pickle' else c
    nn = len(c2.nodes)
    c2.eliminate_1to1_forks()
    if case['how'] == 'twice':
        c2.eliminate_1to1_forks()
    what = f'eliminate_1to1_forks ({case["how"]}) of\n{text}'
    structural(c2, what)
    if [n.name for n in c2.io_nodes] != names:
        raise Violation(f'{what}: ports {[n.name for n in c2.io_nodes]}, before {names}')
    for n in c2.io_nodes:
        if not (0 <= n.index < len(c2.nodes)) or c2.nodes[n.index] is not n:
            raise Violation(f'{what}: port {n.name} is no longer a node of the circuit')
    got = sim_table(c2, ['a', 'b'], [], outs, combos)
    if got != want:
        raise Violation(f'{what}: outputs {got}, the netlist computes {want}')
    return Obs(len(c2.nodes) < nn, ['declarations_after_gates' if max(case['order'].index(k) for k in decl) > min(case['order'].index(k) for k in gates) else 'declarations_first', case['how'], 'base_' + case['base']], checks=3)


HAND = {   # hand-wired implementations of vk/props/c09.py: (constructor, variant, number of inputs, function per output port in port order)
    'hand1': ('handmade_impl', None, 2, [lambda a, b: 1 - (a & b), lambda a, b: 1 - (a & b)]),
    'hand2': ('handmade_impl2', None, 2, [lambda a, b: 1 - (a | b), lambda a, b: a | b, lambda a, b: 1 - (a | b)]),
    'hand3': ('handmade_impl3', None, 2, [lambda a, b: 1 - (a ^ b), lambda a, b: a ^ b, lambda a, b: a ^ b, lambda a, b: a ^ b]),
    'hand4_0': ('handmade_impl4', 0, 1, [lambda a: a, lambda a: 1 - a, lambda a: 1 - a]),
    'hand4_1': ('handmade_impl4', 1, 1, [lambda a: a, lambda a: 1, lambda a: 1]),
    'hand4_2': ('handmade_impl4', 2, 1, [lambda a: a, lambda a: 1 - a, lambda a: 1]),
    'hand5': ('handmade_impl5', None, 1, [lambda a, s: s, lambda a, s: 1 - s], 1),      # one state element: present state s is an extra argument
}


def enum_hand(tier):
    """implementations wired by hand through the API (fork chains before a port, a port that is read inside and drives another port directly,
    several ports on one fork, cell-kind ports read inside, edited in place) x every subset of connected instance outputs x {as is, copy, pickle}"""
    for name, (_, _, _, fns, *_rest) in sorted(HAND.items()):
        for mask in range(1, 1 << len(fns)):
            for how in ('asis', 'copy', 'pickle'):
                yield dict(impl=name, mask=mask, how=how)


def prop_hand(case):
    from kyupy.circuit import Circuit, Node, Line
    from kyupy.logic_sim import LogicSim
    import vk.props.c09 as c09
    ctor, variant, n_in, fns, *rest = HAND[case['impl']]
    n_st = rest[0] if rest else 0
    impl = getattr(c09, ctor)() if variant is None else getattr(c09, ctor)(variant)
    before = canon_circuit(impl)
    c = Circuit('parent')
    ins = []
    for k in range(n_in):
        p = Node(c, f'i{k}', 'input'); c.io_nodes.append(p); ins.append(p)
    u = Node(c, 'u', 'MYCELL')
    for k, p in enumerate(ins):
        Line(c, p, (u, k))
    outs = []
    for k in range(len(fns)):
        if (case['mask'] >> k) & 1:
            o = Node(c, f'o{k}', 'output'); c.io_nodes.append(o); outs.append(k)
            Line(c, (u, k), o)
    ports = [n.name for n in c.io_nodes]
    c.substitute(u, impl)
    structural(c, f'after substitute(u, {case["impl"]}) with outputs {outs} connected')
    if canon_circuit(impl) != before:
        raise Violation(f'substitute modified the implementation circuit {case["impl"]}')
    if [n.name for n in c.io_nodes] != ports:
        raise Violation(f'substitute changed the port list: {[n.name for n in c.io_nodes]} vs {ports}')
    if case['how'] == 'copy': c = c.copy()
    elif case['how'] == 'pickle': c = pickle.loads(pickle.dumps(c))
    npat = 1 << (n_in + n_st)
    sim = LogicSim(c, npat, m=2)
    if sim.s_len != n_in + len(outs) + n_st:
        raise Violation(f'{case["impl"]} substituted with outputs {outs} connected ({case["how"]}): {sim.s_len} ports and state elements, expected {n_in + len(outs) + n_st}')
    mv = np.zeros((sim.s_len, npat), dtype=np.uint8)
    for k in range(n_in):
        mv[k] = [3 * ((p >> k) & 1) for p in range(npat)]
    for k in range(n_st):
        mv[sim.s_len - n_st + k] = [3 * ((p >> (n_in + k)) & 1) for p in range(npat)]
    sim.s[0] = pack_bp(mv)
    sim.s_to_c(); sim.c_prop(); sim.c_to_s()
    res = unpack_bp(sim.s[1], npat)
    for j, k in enumerate(outs):
        for p in range(npat):
            args = [(p >> i) & 1 for i in range(n_in + n_st)]
            want = 3 * fns[k](*args)
            if int(res[n_in + j, p]) != want:
                raise Violation(f'{case["impl"]} substituted with outputs {outs} connected ({case["how"]}): port o{k} = {int(res[n_in + j, p])} for inputs {args}, '
                                f'the implementation computes {want}')
    return Obs(len(outs) < len(fns) or case['how'] != 'asis', [case['impl'], case['how']], checks=len(outs) * npat)


PARTS = [Part('benchports', prop_benchports, enumerate=enum_benchports, quick=(8, 0), thorough=(16, 0)),
         Part('hand', prop_hand, enumerate=enum_hand, quick=(2, 0), thorough=(2, 0)),
         Part('hub', prop_hub, enumerate=enum_hub, quick=(2, 0), thorough=(4, 0)),
         Part('cells', prop_cells, enumerate=enum_cells, quick=(8, 0), thorough=(16, 0)),
         Part('hier', prop_hier, strategy=hier_cases, quick=(8, 400), thorough=(16, 12000))]
