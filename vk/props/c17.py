"""C17 - graph traversals and name lookups are complete and correctly ordered."""
import re

import numpy as np
from hypothesis import strategies as st

from vk.core import Violation, Obs, Part
from vk import refmodel as rm, strategies as S
from vk.build import build

ID = 'C17'
RULE = ('Part order: Hypothesis-generated netlists with open input pins (incl. pin 0), open outputs, flip-flops used only through QN, latches, fork '
        'chains, both port styles, plus isolated nodes and nodes whose pins were all disconnected again; origin sets of 1..4 nodes. Oracles: '
        'topological_order is a permutation of nodes, sources (no connected input or state element) first, every other node after the drivers of '
        'its connected pins; levels = own longest-path computation; line order is a permutation of lines consistent with the node order; '
        'reversed order is a permutation with every non-state node after all its readers; fanin(origins) contains every node of the own backward reachability that '
        'includes but does not pass through non-origin state elements, nothing outside the unrestricted backward reachability, readers before drivers. Part locs: port/state name tables from a '
        'naming model (index styles [i], _i_, _i, two dimensions, gaps, indices >= 10, shared prefixes, scalars) -> io_locs/s_locs(prefix) equal '
        'the table computed from the model (int, LSB..MSB list, nested lists sorted by base name, None). non-trivial: order: a node with an open pin '
        'next to a connected one; the look-ups are repeated after the ports were re-ordered in place; locs: an index >= 10 or two dimensions; distinct by SHA-1 of the case. In the order part latches without a used QN enter as NanGate DLH_X1/X2 cells and become primitives through resolve_tlib_cells(). Base names of the look-up part include hierarchy dividers and ~ (top.data, u1/q, dat~l).')
ASSUMPTIONS = ['every bus has a fixed number of dimensions and no scalar shares its base name with a bus (otherwise the documented lookup is ambiguous)',
               'base names are letters only and end in a letter']


@st.composite
def order_cases(draw, tier):
    big = tier == 'thorough'
    nl = draw(S.netlists(max_g=40 if big else 14, max_pi=5, max_st=5, need_d=False, shift_regs=True))
    return dict(nl=nl, iso=draw(st.integers(0, 2)), dang=draw(st.integers(0, 2)),
                origins=draw(st.lists(st.integers(0, 10000), min_size=1, max_size=4)), libst=draw(st.sampled_from([0, 0, 1, 2])))


def is_state(n):
    k = n.kind.lower()
    return 'dff' in k or 'latch' in k


def prop_order(case):
    from kyupy.circuit import Node, Line
    nl = case['nl']
    libst = []
    if case.get('libst'):
        # latches enter the circuit as library cells (NanGate DLH_X1 / DLH_X2: input(D,G) output(Q), Q=LATCH(D,G)) and become primitives through
        # resolve_tlib_cells() - the documented flow for parsed netlists; afterwards they are state elements like any other
        used = set(nl['po']) | {x for g in nl['g'] for x in g['i'] if x is not None} | {s_[f] for s_ in nl['st'] for f in ('d', 'c') if s_.get(f) is not None}
        nl = dict(nl, st=[dict(s_) for s_ in nl['st']])
        for k, s_ in enumerate(nl['st']):
            if s_['t'] == 'L' and f'n{k}' not in used:
                s_['k'] = f'DLH_X{case["libst"]}'
                libst.append(k)
    b = build(nl)
    c = b.c
    if libst:
        from kyupy.techlib import NANGATE
        c.resolve_tlib_cells(NANGATE)
        for k in libst:
            if b.st[k].kind != 'LATCH' or not any(n is b.st[k] for n in c.nodes):
                raise Violation(f'resolve_tlib_cells: latch cell {b.st[k].name} became {b.st[k].kind!r}')
    for i in range(case['iso']):
        Node(c, f'iso{i}', 'and')
    for i in range(case['dang']):            # node whose pins were connected once and disconnected again (all pins None)
        n = Node(c, f'dang{i}', 'or2')
        src = c.nodes[0]
        l1 = Line(c, Node(c, f'dangsrc{i}', 'buf'), (n, 1))
        l1.remove()
    if case['origins'][0] % 4 == 0:            # a net with two drivers (wired / tri-state net): a second line into a fork, from a primary input
        forks2 = [n for n in c.forks.values() if len(n.ins) == 1 and n.ins[0] is not None and not any(n is p for p in b.pi)]
        if forks2 and b.pi:
            f2 = forks2[case['origins'][0] // 4 % len(forks2)]
            drv = b.pi[case['origins'][0] // 64 % len(b.pi)]
            Line(c, drv, (f2, 1))
    nodes = list(c.nodes)
    N = len(nodes)
    conn_in = {id(n): [l for l in n.ins if l is not None] for n in nodes}
    conn_out = {id(n): [l for l in n.outs if l is not None] for n in nodes}
    source = {id(n): (is_state(n) or not conn_in[id(n)]) for n in nodes}

    # --- topological order
    order = list(c.topological_order())
    if len(order) != N or {id(n) for n in order} != {id(n) for n in nodes}:
        missing = [n.name for n in nodes if id(n) not in {id(x) for x in order}]
        raise Violation(f'topological_order yields {len(order)} of {N} nodes; missing {missing[:5]}')
    pos = {id(n): i for i, n in enumerate(order)}
    nsrc = sum(source.values())
    for n in nodes:
        if source[id(n)]:
            if pos[id(n)] >= nsrc:
                raise Violation(f'source node {n.name} ({n.kind}) is not among the first {nsrc} nodes of topological_order')
        else:
            for l in conn_in[id(n)]:
                if pos[id(l.driver)] >= pos[id(n)]:
                    raise Violation(f'node {n.name} comes before its driver {l.driver.name} in topological_order')
    # --- levels
    lev = {}
    for n in order:
        lev[id(n)] = 0 if source[id(n)] else 1 + max(lev[id(l.driver)] for l in conn_in[id(n)])
    got = list(c.topological_order_with_level())
    if [id(n) for n, _ in got] != [id(n) for n in order]:
        raise Violation('topological_order_with_level yields a different node sequence than topological_order')
    for n, l in got:
        if int(l) != lev[id(n)]:
            raise Violation(f'level of {n.name} = {int(l)}, longest combinational distance from a source = {lev[id(n)]}')
    # --- line order
    lines = list(c.topological_line_order())
    if len(lines) != len(c.lines) or {l.index for l in lines} != set(range(len(c.lines))):
        raise Violation(f'topological_line_order yields {len(lines)} of {len(c.lines)} lines')
    lpos = {l.index: i for i, l in enumerate(lines)}
    for l in c.lines:
        d = l.driver
        if not source[id(d)]:
            for li in conn_in[id(d)]:
                if lpos[li.index] >= lpos[l.index]:
                    raise Violation(f'line {l.index} comes before line {li.index} which feeds its driver {d.name}')
    # --- reversed order
    rorder = list(c.reversed_topological_order())
    if len(rorder) != N or {id(n) for n in rorder} != {id(n) for n in nodes}:
        missing = [n.name for n in nodes if id(n) not in {id(x) for x in rorder}]
        raise Violation(f'reversed_topological_order yields {len(rorder)} of {N} nodes; missing {missing[:5]}')
    rpos = {id(n): i for i, n in enumerate(rorder)}
    sink = {id(n): (is_state(n) or not conn_out[id(n)]) for n in nodes}
    nsink = sum(sink.values())
    for n in nodes:
        if sink[id(n)]:
            if rpos[id(n)] >= nsink:
                raise Violation(f'sink node {n.name} ({n.kind}) is not among the first {nsink} nodes of reversed_topological_order')
        else:
            for l in conn_out[id(n)]:
                if rpos[id(l.reader)] >= rpos[id(n)]:
                    raise Violation(f'node {n.name} comes before its reader {l.reader.name} in reversed_topological_order')
    # --- the iterators are independent of each other: two of them consumed in lock step, and one consumed inside another's loop
    both = list(zip(c.topological_order(), c.topological_order_with_level(), c.reversed_topological_order()))
    if [id(a) for a, _, _ in both] != [id(n) for n in order] or [(id(n), int(l)) for _, (n, l), _ in both] != [(id(n), int(l)) for n, l in got] \
            or [id(r) for _, _, r in both] != [id(n) for n in rorder]:
        raise Violation('traversals consumed in lock step (zip) differ from the same traversals consumed one after the other')
    nested = []
    for i, n in enumerate(c.topological_order()):
        nested.append(n)
        if i == N // 2:
            inner = list(c.topological_line_order())
            if [l.index for l in inner] != [l.index for l in lines]:
                raise Violation('topological_line_order started inside a topological_order loop differs from a stand-alone call')
    if [id(n) for n in nested] != [id(n) for n in order]:
        raise Violation('topological_order differs when another traversal runs inside its loop')
    # --- fanin
    origins = []
    for r in case['origins']:
        n = nodes[r % N]
        if all(n is not o for o in origins):
            origins.append(n)
    oid = {id(o) for o in origins}

    def reach(through_state):
        seen = set()
        stack = list(origins)
        while stack:
            n = stack.pop()
            if id(n) in seen:
                continue
            seen.add(id(n))
            if is_state(n) and id(n) not in oid and not through_state:
                continue                      # included (it starts a combinational path), but the search does not pass through it
            for l in conn_in[id(n)]:
                stack.append(l.driver)
        return seen

    want = reach(False)        # must be yielded: nodes with a combinational path to an origin
    allowed = reach(True)      # may be yielded: nodes with any path to an origin
    fi = list(c.fanin(origins))
    gotset = {id(n) for n in fi}
    if len(fi) != len(gotset):
        raise Violation('fanin yields a node twice')
    byid = {id(n): n for n in nodes}
    if want - gotset:
        miss = [byid[i].name for i in want - gotset]
        raise Violation(f'fanin({[o.name for o in origins]}): missing {miss[:6]} although they have a combinational path to an origin')
    if gotset - allowed:
        extra = [byid[i].name for i in gotset - allowed]
        raise Violation(f'fanin({[o.name for o in origins]}): yields {extra[:6]} which have no path to any origin')
    fpos = {id(n): i for i, n in enumerate(fi)}
    for n in fi:
        if not sink[id(n)]:
            for l in conn_out[id(n)]:
                if is_state(l.reader):
                    continue              # edge into a state element: the circuit is cut there
                if id(l.reader) in fpos and fpos[id(l.reader)] >= fpos[id(n)]:
                    raise Violation(f'fanin: {n.name} yielded before its reader {l.reader.name}')
    mixed = any(any(l is None for l in n.ins) and any(l is not None for l in n.ins) for n in nodes)
    labels = []
    if mixed: labels.append('open_pin_next_to_connected')
    if any(s[0] == 'n' for s in rm.readers(nl)) : labels.append('dff_qn')
    if case['iso'] or case['dang']: labels.append('isolated_nodes')
    if libst: labels.append('latch_from_library_cell')
    if any(is_state(byid[i]) and i not in oid for i in want): labels.append('fanin_reaches_state_element')
    return Obs(mixed, labels, checks=5)


# --------------------------------------------------------------------------------------------- locs

BASES = ['data', 'addr', 'q', 'dataout', 'datain', 'd', 'ack', 'sel', 'state', 'stat', 'dat', 'clk', 'top.data', 'u1/q', 'dat~l', 'top.en']      # the last four: hierarchy dividers and the ~ of names made by substitute()
STYLES1 = ['[{}]', '_{}_', '_{}']
STYLES2 = ['[{}][{}]', '_{}__{}_', '[{}]_{}_']


@st.composite
def locs_cases(draw, tier):
    nb = draw(st.integers(1, 5))
    bases = draw(st.lists(st.sampled_from(BASES), min_size=nb, max_size=nb, unique=True))
    sigs = []
    for bname in bases:
        dims = draw(st.sampled_from([0, 1, 1, 1, 2]))
        if dims == 0:
            sigs.append(dict(base=bname, dims=0, idx=[[]], style=''))
        elif dims == 1:
            idx = draw(st.lists(st.one_of(st.integers(0, 12), st.integers(0, 40), st.sampled_from([98, 99, 100, 101, 1000])), min_size=1, max_size=12, unique=True))
            sigs.append(dict(base=bname, dims=1, idx=[[i] for i in idx], style=draw(st.sampled_from(STYLES1))))
        else:
            rows = draw(st.lists(st.integers(0, 11), min_size=1, max_size=3, unique=True))
            cols = draw(st.lists(st.integers(0, 11), min_size=1, max_size=4, unique=True))
            sigs.append(dict(base=bname, dims=2, idx=[[r, c_] for r in rows for c_ in cols], style=draw(st.sampled_from(STYLES2))))
    kinds = draw(st.lists(st.sampled_from(['input', 'output', 'DFF', 'dff_x1', 'LATCH', 'SDFFX1']), min_size=40, max_size=40))
    shuffle = draw(st.integers(0, 1 << 40))
    pref = draw(st.integers(0, 1000))
    plen = draw(st.integers(1, 8))
    return dict(sigs=sigs, kinds=kinds, shuffle=shuffle, pref=pref, plen=plen)


def prop_locs(case):
    from kyupy.circuit import Circuit, Node
    c = Circuit('t')
    entries = []    # (name, base, idx tuple)
    for sg in case['sigs']:
        for idx in sg['idx']:
            entries.append((sg['base'] + sg['style'].format(*idx), sg['base'], tuple(idx)))
    # deterministic shuffle
    x = case['shuffle']
    pool = list(entries); ent = []
    while pool:
        ent.append(pool.pop(x % len(pool))); x //= 3
    nodes = []
    dummy = Node(c, 'zz~placeholder', 'buf') if case['shuffle'] % 2 else None      # removed again below: the last node then takes its index
    for k, (name, base, idx) in enumerate(ent):
        kind = case['kinds'][k % len(case['kinds'])]
        n = Node(c, name, kind)
        nodes.append((n, base, idx, kind))
        if kind in ('input', 'output'):
            c.io_nodes.append(n)
    if dummy is not None:
        dummy.remove()
    bases = sorted({e[1] for e in ent})
    b0 = bases[case['pref'] % len(bases)]
    prefixes = [b0, b0[:max(1, min(len(b0), case['plen']))], 'zz']

    def expected(prefix, seq):
        table = {}
        for i, n in enumerate(seq):
            meta = next(m for m in nodes if m[0] is n)
            if not meta[1].startswith(prefix):
                continue
            d = table.setdefault(meta[1], {} if meta[2] else None)
            if not meta[2]:
                table[meta[1]] = i
                continue
            for j in meta[2][:-1]:
                d = d.setdefault(j, {})
            d[meta[2][-1]] = i

        def sv(d):
            return [sv(v) for k, v in sorted(d.items())] if isinstance(d, dict) else d
        l = sv(table)
        while isinstance(l, list) and len(l) == 1:
            l = l[0]
        return None if isinstance(l, list) and len(l) == 0 else l

    hi = False

    def look(when):
        for prefix in prefixes:
            for fn, seq in ((c.io_locs, list(c.io_nodes)), (c.s_locs, c.s_nodes)):
                got = fn(prefix)
                exp = expected(prefix, seq)
                if got != exp:
                    raise Violation(f'{when}{fn.__name__}({prefix!r}) = {got}, expected {exp} for names {[n.name for n in seq]}')

    look('')
    # positions are positions in the *current* lists: re-order the ports in place (node and port counts unchanged) and look again
    nio = len(c.io_nodes)
    if nio >= 2:
        rot = 1 + case['shuffle'] % (nio - 1)
        ports = list(c.io_nodes)
        for i in range(nio):
            c.io_nodes[i] = ports[(i + rot) % nio]
        look('after re-ordering the ports in place: ')
    hi = any(sg['dims'] == 2 or any(i[0] >= 10 for i in sg['idx'] if i) for sg in case['sigs'])
    labels = ['two_dims' if any(sg['dims'] == 2 for sg in case['sigs']) else 'one_dim']
    if any(any(i and i[0] >= 10 for i in sg['idx']) for sg in case['sigs']): labels.append('index>=10')
    if len(bases) > 1: labels.append('several_bases')
    return Obs(hi, labels, checks=6)


def enum_deep(tier):
    for n in ([150, 20000] if tier == 'quick' else [150, 400, 20000, 40000]):
        yield dict(n=n)


def prop_deep(case):
    """very deep circuits: levels beyond 127 / 32767, orders on tens of thousands of nodes"""
    from vk import bigcirc
    c, _ = bigcirc.chain(case['n'], 1, 1, 1)
    N = len(c.nodes)
    order = list(c.topological_order())
    if len(order) != N:
        raise Violation(f'topological_order yields {len(order)} of {N} nodes')
    pos = {id(n): i for i, n in enumerate(order)}
    lev = {}
    for n in order:
        drivers = [l.driver for l in n.ins if l is not None]
        if any(pos[id(d)] >= pos[id(n)] for d in drivers):
            raise Violation(f'node {n.name} before one of its drivers in topological_order')
        lev[id(n)] = 1 + max(lev[id(d)] for d in drivers) if drivers else 0
    for n, l in c.topological_order_with_level():
        if int(l) != lev[id(n)]:
            raise Violation(f'level of {n.name} = {int(l)}, longest combinational distance from a source = {lev[id(n)]} (circuit depth {max(lev.values())})')
    lines = list(c.topological_line_order())
    if len(lines) != len(c.lines) or len({l.index for l in lines}) != len(c.lines):
        raise Violation('topological_line_order is not a permutation of the lines')
    rorder = list(c.reversed_topological_order())
    if len(rorder) != N:
        raise Violation(f'reversed_topological_order yields {len(rorder)} of {N} nodes')
    rpos = {id(n): i for i, n in enumerate(rorder)}
    for n in c.nodes:
        for l in n.outs:
            if l is not None and rpos[id(l.reader)] >= rpos[id(n)]:
                raise Violation(f'node {n.name} before its reader {l.reader.name} in reversed_topological_order')
    fi = list(c.fanin([c.cells['o']]))
    if len(fi) != N:
        raise Violation(f'fanin(output) yields {len(fi)} of {N} nodes of a circuit that is one cone')
    return Obs(True, [f'depth>{127 if max(lev.values()) < 32768 else 32767}'], checks=5)


PARTS = [Part('deep', prop_deep, enumerate=enum_deep, quick=(2, 0), thorough=(4, 0)),
         Part('order', prop_order, strategy=order_cases, quick=(8, 250), thorough=(16, 9000)),
         Part('locs', prop_locs, strategy=locs_cases, quick=(4, 300), thorough=(8, 12000))]
