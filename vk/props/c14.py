"""C14 - every SDF delay lands on the right line, polarity and dataset - none is lost."""
import re
import numpy as np
from hypothesis import strategies as st

from vk.core import Violation, Obs, Part, HarnessError
from vk import refmodel as rm, strategies as S
from vk.render_verilog import render_verilog, fit_to_lib, LIBS
from vk.props.c19 import expected_cells

ID = 'C14'
RULE = ('Part api: per library a one-cell circuit built with Node/Line in three line-creation orders (the annotated pin fed by line 0). Part annotate: Hypothesis-generated netlists rendered as Verilog over a built-in library (single-output cells, flip-flops, escaped instance names with brackets), '
        'parsed with branchforks in {True, False}, plus a generated SDF model: header fields in random order, IOPATH entries per (instance, connected '
        'input pin, edge in {none, posedge, negedge}) with one or two value lists whose triples have independently empty members or are (), '
        'INTERCONNECT entries from driver pin / input port to reader pin (only where a target line exists: branch fork, or sole reader), entries '
        'grouped freely into CELL blocks - several blocks per instance, several (INSTANCE) blocks, interleaved - with TIMINGCHECK blocks and comments '
        'as noise. Oracle: ground-truth array [3, lines, 2, 2] filled from the model in file order (the line feeding a pin is found through the '
        'branch-fork name or an own reading of the library pin order); iopaths() and interconnects() must equal it exactly, zeros everywhere else. '
        'non-trivial: >= 2 CELL blocks for one instance or >= 2 interconnect blocks, plus an edge-qualified path and an empty triple; distinct by SHA-1. CELL blocks for instances that are not in the circuit but whose names resemble existing ones (bracket / underscore spelling of a register bit, other case, longer name) are part of the noise. Part api includes a user-defined library whose pin names contain a dash (en, en-n).')
ASSUMPTIONS = ['IOPATH entries only for connected pins; at most one INTERCONNECT entry per (driver, reader) pair; values are non-negative decimals',
               'instance names contain no hierarchy divider']

LIBNAMES = sorted(LIBS)
VAL = st.one_of(st.none(), st.integers(0, 9999))
TRIPLE = st.one_of(st.just([]), st.tuples(VAL, VAL, VAL).map(list))
VALN = st.one_of(st.none(), st.integers(0, 9999), st.integers(0, 9999), st.integers(-999, -1))      # IOPATH values may be negative (legal SDF)
TRIPLE_IO = st.one_of(st.just([]), st.tuples(VALN, VALN, VALN).map(list))


@st.composite
def cases(draw, tier):
    big = tier == 'thorough'
    lib = draw(st.sampled_from(LIBNAMES))
    fams = sorted({f for f, n in LIBS[lib]['cells']})
    nl = draw(S.netlists(max_g=14 if big else 7, max_pi=4, max_st=2, families=fams, styles=('cells',), need_d=True, latches=False, po_taps=2,
                         open_pins=False, min_g=1))
    nio = draw(st.integers(1, 12))
    io = draw(st.lists(st.tuples(st.integers(0, 999), st.integers(0, 9), st.integers(0, 2), st.lists(TRIPLE_IO, min_size=1, max_size=2),
                                 st.integers(0, 3)), min_size=1, max_size=nio))
    ic = draw(st.lists(st.tuples(st.integers(0, 999), st.integers(0, 9), st.lists(TRIPLE, min_size=1, max_size=2), st.integers(0, 2)),
                       min_size=0, max_size=8))
    return dict(nl=nl, lib=lib, seed=draw(st.integers(1, 1 << 40)), branchforks=draw(st.booleans()),
                io=[[a, b, c, [list(t) for t in d], e] for a, b, c, d, e in io], ic=[[a, b, [list(t) for t in c], d] for a, b, c, d in ic],
                hdr=draw(st.integers(0, 1 << 30)))


def fmt(v, k):
    if v is None:
        return ''
    return [f'{v / 1000:.3f}', f'{v / 1000:.2f}', str(v // 1000), f'{v / 1000:g}'][k % 4]


def triple_text(t, k):
    if not t:
        return '()', [0.0, 0.0, 0.0]
    txt = [fmt(v, k + i) for i, v in enumerate(t)]
    return '(' + ':'.join(txt) + ')', [float(x) if x else 0.0 for x in txt]


def sdf_name(n, plain=False):
    """brackets of a hierarchical name are escaped in SDF; writers differ; the reader removes the backslashes before it looks a name up, so both spellings name the same instance"""
    return n if plain else n.replace('[', '\\[').replace(']', '\\]')


def prop(case):
    from kyupy import verilog, sdf, techlib
    lib = case['lib']
    tlib = getattr(techlib, lib)
    nl = fit_to_lib(case['nl'], lib)
    text, truth = render_verilog(nl, lib, case['seed'], simple=True)
    bf = case['branchforks']
    c = verilog.parse(text, tlib=tlib, branchforks=bf)
    nlines = len(c.lines)
    rd = rm.readers(nl)
    libcells = expected_cells(lib)
    insts = [i for i in truth['insts']]
    # connected input pins of every instance
    pins = [(i, p, src) for i in insts for p, src in i['ins'].items() if src is not None]
    if not pins:
        return Obs(False, ['no_connected_pin'])

    def pin_line(inst, pin, src):
        """the line that feeds the pin"""
        if bf:
            name = f'{truth["net"][src]}~{inst["name"]}/{pin}'
            if name not in c.forks:
                raise Violation(f'branch fork {name} missing')
            return c.forks[name].outs[0]
        order = libcells[inst['cell']][0]
        node = c.cells[inst['name']]
        return node.ins[order.index(pin)]

    exp_io = np.zeros((3, nlines, 2, 2))
    exp_ic = np.zeros((3, nlines, 2, 2))
    # ---- model -> entries in file order -------------------------------------------------------------
    blocks = []          # (instance name or None, celltype, [entry text]) in file order; entries of one (instance, block id) share a block
    bindex = {}
    edge_used = empty_used = False
    for sel, psel, edge, vals, blk in case['io']:
        inst, pin, src = pins[sel % len(pins)]
        outpin = [o for o in inst['outs']][psel % len(inst['outs'])]
        texts, nums = zip(*[triple_text(t, sel + j) for j, t in enumerate(vals)])
        if len(nums) == 1:
            nums = (nums[0], nums[0])
        pols = [0, 1] if edge == 0 else [0] if edge == 1 else [1]
        line = pin_line(inst, pin, src)
        spec = pin if edge == 0 else f'({"posedge" if edge == 1 else "negedge"} {pin})'
        entry = (f'(IOPATH {spec} {outpin} {" ".join(texts)})', 'io', line.index, pols, nums)
        key = (inst['name'], blk)
        if key not in bindex:
            bindex[key] = len(blocks)
            blocks.append((inst['name'], inst['cell'], []))
        blocks[bindex[key]][2].append(entry)
        edge_used |= edge != 0
        empty_used |= any((not t) or any(v is None for v in t) for t in vals)
    if case['hdr'] % 3 == 0:
        blocks.append(('no_such_instance_u99', insts[0]['cell'], [(f'(IOPATH {pins[0][1]} {list(insts[0]["outs"])[0]} (1.0:2.0:3.0) (4.0:5.0:6.0))', 'none', 0, [0, 1], None)]))
    # blocks for instances that are not in the circuit are skipped - also when their name resembles an existing one (another spelling of the
    # brackets of a register bit, other case, a longer name): 'every other entry of the delay array is zero'
    have = {i_['name'] for i_ in insts}
    near_miss = 0
    for j, i_ in enumerate(insts):
        if (case['hdr'] + j) % 2:
            continue
        cin = [(p_, s_) for p_, s_ in i_['ins'].items() if s_ is not None] if isinstance(i_.get('ins'), dict) else []
        if not cin:
            continue
        n_ = i_['name']
        cands = [n_.replace('[', '_').replace(']', '_'), re.sub(r'_(\d+)_$', r'[\1]', n_), n_.upper(), n_.lower(), n_ + '_', n_ + '[0]']
        for alt in cands:
            if alt != n_ and alt not in have:
                blocks.append((alt, i_['cell'], [(f'(IOPATH {cin[0][0]} {list(i_["outs"])[0]} (1.5:2.5:3.5) (4.5:5.5:6.5))', 'none', 0, [0, 1], None)]))
                near_miss += 1
                break
    used_pairs = set()
    nic = 0
    port_ic = False
    for sel, _, vals, blk in case['ic']:
        inst, pin, src = pins[sel % len(pins)]
        if src[0] == 'n' or (src, inst['name'], pin) in used_pairs:
            continue
        no_line = not bf and len(rd.get(src, [])) != 1     # no branch fork and several readers: there is no line for this interconnect,
        used_pairs.add((src, inst['name'], pin))            # the entry is written anyway and must not annotate anything
        if src[0] == 'i':
            orig = truth['net'][src]
        else:
            drv = next(i for i in insts if src in i['outs'].values())
            opin = next(p for p, s_ in drv['outs'].items() if s_ == src)
            orig = f'{sdf_name(drv["name"])}/{opin}'
        texts, nums = zip(*[triple_text(t, sel + j) for j, t in enumerate(vals)])
        if len(nums) == 1:
            nums = (nums[0], nums[0])
        fname = f'{truth["net"][src]}~{inst["name"]}/{pin}' if bf else truth['net'][src]
        if fname not in c.forks or not c.forks[fname].ins:
            raise Violation(f'{"branch " if bf else ""}fork {fname} missing or undriven in the parsed circuit (branchforks={bf})')
        line = c.forks[fname].ins[0]
        entry = (f'(INTERCONNECT {sdf_name(orig)} {sdf_name(inst["name"])}/{pin} {" ".join(texts)})', 'none' if no_line else 'ic', line.index, [0, 1], nums)
        key = (None, blk)
        if key not in bindex:
            bindex[key] = len(blocks)
            blocks.append((None, 'top', []))
        blocks[bindex[key]][2].append(entry)
        nic += 1
    # an interconnect entry whose origin is a flip-flop output that is not connected at all (no line): there is nothing to annotate, every
    # other entry must still arrive. (Entries between two pins that are connected, but not to each other, are invalid SDF and not generated.)
    if case['hdr'] % 2 == 0 and pins:
        d_inst, d_pin, d_src = pins[0]
        for i_ in insts:
            open_out = [p_ for p_, s_ in i_['outs'].items() if s_ is None]
            if len(i_['outs']) == 2 and open_out:
                key = (None, 0)
                if key not in bindex:
                    bindex[key] = len(blocks)
                    blocks.append((None, 'top', []))
                blocks[bindex[key]][2].append((f'(INTERCONNECT {sdf_name(i_["name"])}/{open_out[0]} {sdf_name(d_inst["name"])}/{d_pin} (0.5:0.5:0.5))',
                                               'none', 0, [0, 1], None))
                break
    # interconnects that end at an output port
    for sel, psel, vals, blk in case['ic']:
        if psel % 3 or not nl['po']:
            continue
        k = sel % len(nl['po'])
        src = nl['po'][k]
        drv = next((i for i in insts if src in i['outs'].values()), None)
        if src[0] != 'i' and drv is None:
            continue                                  # constant output written as a literal
        bound = k in truth['bound_po']
        if bound and len(rd.get(src, [])) != 1:
            continue                                  # port shares the signal fork with other readers: no line of its own
        if ('po', k) in used_pairs:
            continue
        used_pairs.add(('po', k))
        pname = truth['po'][k]
        if pname not in c.forks or not c.forks[pname].ins:
            raise Violation(f'fork of output port {pname} missing or undriven')
        line = c.forks[pname].ins[0]
        orig = truth['net'][src] if src[0] == 'i' else f'{sdf_name(drv["name"])}/{next(p for p, s_ in drv["outs"].items() if s_ == src)}'
        texts, nums = zip(*[triple_text(t, sel + j) for j, t in enumerate(vals)])
        if len(nums) == 1:
            nums = (nums[0], nums[0])
        entry = (f'(INTERCONNECT {sdf_name(orig)} {sdf_name(pname)} {" ".join(texts)})', 'ic', line.index, [0, 1], nums)
        key = (None, blk)
        if key not in bindex:
            bindex[key] = len(blocks)
            blocks.append((None, 'top', []))
        blocks[bindex[key]][2].append(entry)
        nic += 1
        port_ic = True
    # ---- text ----------------------------------------------------------------------------------------
    r = case['hdr']
    hdr = ['(SDFVERSION "OVI 2.1")', '(DESIGN "top")', '(DATE "Wed May 31 14:46:06 2017")', '(VENDOR "lib_max")', '(PROGRAM "tool cmos-annotated")',
           '(VERSION "I-2013.12")', '(DIVIDER /)', '(VOLTAGE 1.20:1.20:1.20)', '(PROCESS "TYPICAL")', '(TEMPERATURE 25.00:25.00:25.00)', '(TIMESCALE 1ns)']
    order = []
    pool = list(hdr)
    while pool:
        order.append(pool.pop(r % len(pool))); r //= 3
    keep = [h for i, h in enumerate(order) if (case['hdr'] >> i) & 1 or i < 2]
    out = ['(DELAYFILE'] + keep
    # blocks of one instance may spell its name differently (with / without backslashes) - but only when no path of that instance is annotated in
    # more than one block: which of two annotations of one path wins is not part of the statement once the spelling differs (the reader groups
    # blocks by spelling), so that combination is not generated
    annotated, repeated = {}, set()
    for iname, _, ents in blocks:
        paths = {(li, ip) for _, kind, li, pols, _ in ents if kind == 'io' for ip in pols}
        if paths & annotated.get(iname, set()):
            repeated.add(iname)
        annotated.setdefault(iname, set()).update(paths)
    for bi, (iname, ctype, ents) in enumerate(blocks):
        entries = [e[0] for e in ents]
        for _, kind, li, pols, nums in ents:          # ground truth in file order: a later entry overrides an earlier one
            if kind == 'none':
                continue
            arr = exp_io if kind == 'io' else exp_ic
            for ip in pols:
                arr[:, li, ip, 0] = nums[0]
                arr[:, li, ip, 1] = nums[1]
        out.append('(CELL')
        out.append(f'  (CELLTYPE "{ctype}")')
        out.append(f'  (INSTANCE {sdf_name(iname, plain=(bi + case["seed"]) % 3 == 0 and iname not in repeated)})' if iname is not None else '  (INSTANCE)')      # blocks of one instance may spell its name differently
        if bi % 3 == 1:
            out.append('  (TIMINGCHECK (WIDTH (posedge CLK) (0.284:0.284:0.284)) (SETUP (negedge D) (posedge CLK) (0.620:0.643:0.643)))')
        half = len(entries) // 2 if bi % 2 else len(entries)
        out.append('  (DELAY (ABSOLUTE // comment ( ) \n    ' + '\n    '.join(entries[:half]) + '\n  ))')
        if entries[half:]:
            out.append('  (DELAY\n (ABSOLUTE ' + ' '.join(entries[half:]) + '))')
        if bi % 3 == 2:
            out.append('  (TIMINGCHECK\n (HOLD (posedge D) (posedge CLK) (-0.321:-0.331:-0.331)))')
        out.append(')')
    out.append(')')
    stext = '\n'.join(out) + '\n'
    poisoned = (case['seed'] // 7) % 3 == 0
    if poisoned:
        # history: an earlier parse in the same process that fails half-way (a truncated file naming every connected pin of the design, with
        # other values) - whatever the reader had collected by then must not show up in the next file's annotation
        bad = ['(DELAYFILE', '(SDFVERSION "OVI 2.1")', '(DESIGN "top")', '(TIMESCALE 1ns)']
        for j, i_ in enumerate(insts):
            cin = [p_ for p_, s_ in i_['ins'].items() if s_ is not None]
            if not cin or not i_['outs']:
                continue
            o_ = list(i_['outs'])[0]
            ents = ' '.join(f'(IOPATH {"" if (j + k) % 3 == 0 else "(posedge " if (j + k) % 3 == 1 else "(negedge "}{p_}{"" if (j + k) % 3 == 0 else ")"} {o_} '
                            f'({7 + k}.25:{8 + k}.25:{9 + k}.25) ({10 + k}.5:{11 + k}.5:{12 + k}.5))' for k, p_ in enumerate(cin))
            bad.append(f'(CELL (CELLTYPE "{i_["cell"]}") (INSTANCE {sdf_name(i_["name"], plain=j % 2 == 1)}) (DELAY (ABSOLUTE {ents})))')
        bad.append('(CELL (CELLTYPE "BUF") (INSTANCE cut_off_here) (DELAY (ABSOLUTE (IOPATH A')
        try:
            sdf.parse('\n'.join(bad) + '\n')
        except Exception:          # the truncated file is rejected; how is not the subject
            pass
    df = sdf.parse(stext)
    if case['hdr'] % 2:
        # the same parse result is first applied to the other model of the design (same module name, other branchforks setting):
        # whatever it produces there must not leak into the annotation of this circuit
        c_other = verilog.parse(text, tlib=tlib, branchforks=not bf)
        other_io = df.iopaths(c_other, tlib)
        if other_io.shape != (3, len(c_other.lines), 2, 2):
            raise Violation(f'iopaths on the other model: shape {other_io.shape}, circuit has {len(c_other.lines)} lines')
        try:
            df.interconnects(c_other, tlib)
        except AssertionError:
            pass            # without branch forks some entries have no place (asserted by the annotator); not the subject here
    got_io = df.iopaths(c, tlib)
    if got_io.shape != exp_io.shape or not np.array_equal(got_io, exp_io):
        bad = np.argwhere(got_io != exp_io)[0] if got_io.shape == exp_io.shape else None
        l = c.lines[bad[1]] if bad is not None else None
        raise Violation(f'iopaths: ' + (f'[dataset {bad[0]}, line {bad[1]} ({l.driver.name}->{l.reader.name}/{l.reader_pin}), in-pol {bad[2]}, out-pol {bad[3]}] = '
                        f'{got_io[tuple(bad)]}, SDF file says {exp_io[tuple(bad)]}' if bad is not None else f'shape {got_io.shape} vs {exp_io.shape}')
                        + f' (branchforks={bf})\n{stext}')
    labels = [lib, f'branchforks={bf}']
    if True:                 # also for files without any interconnect entry: the array is all zero then
        got_ic = df.interconnects(c, tlib)
        if got_ic.shape != exp_ic.shape or not np.array_equal(got_ic, exp_ic):
            bad = np.argwhere(got_ic != exp_ic)[0] if got_ic.shape == exp_ic.shape else None
            l = c.lines[bad[1]] if bad is not None else None
            raise Violation(f'interconnects: ' + (f'[dataset {bad[0]}, line {bad[1]} ({l.driver.name}->{l.reader.name}), in-pol {bad[2]}, out-pol {bad[3]}] = '
                            f'{got_ic[tuple(bad)]}, SDF file says {exp_ic[tuple(bad)]}' if bad is not None else f'shape {got_ic.shape} vs {exp_ic.shape}')
                            + f' (branchforks={bf})\n{stext}')
        if nic: labels.append('interconnects')
        if near_miss: labels.append('blocks_for_absent_instances_with_similar_names')
        if port_ic: labels.append('interconnect_to_output_port')
    per_inst = {}
    for (iname, blk) in bindex:
        per_inst[iname] = per_inst.get(iname, 0) + 1
    multi = any(v >= 2 for v in per_inst.values())
    if multi: labels.append('repeated_blocks')
    if per_inst.get(None, 0) >= 2: labels.append('repeated_interconnect_blocks')
    if edge_used: labels.append('edge_qualified')
    if case['hdr'] % 2: labels.append('parse_result_used_for_two_models')
    if poisoned: labels.append('after_a_failed_parse_of_a_truncated_file')
    if empty_used: labels.append('empty_value')
    return Obs(multi and edge_used and empty_used, labels, checks=2)


def enum_api(tier):
    """circuits put together with Node / Line directly (not parsed): any line, also the very first one, may be the one that feeds an annotated pin"""
    for lib in LIBNAMES:
        for first in (0, 1, 2):
            yield dict(lib=lib, first=first)
    for first in (0, 1, 2):
        yield dict(lib='custom', first=first)      # a user-defined TechLib whose cell lists its output before its inputs
        yield dict(lib='custom2', first=first)     # ... and one whose pin names contain '-' (en, en-n): one pin name is a prefix of the other


def prop_api(case):
    from kyupy import sdf, techlib
    from kyupy.circuit import Circuit, Node, Line
    lib = case['lib']
    if lib == 'custom2':
        tlib = techlib.TechLib('MYGATE input(en,en-n) output(q) q=AND2(en,en-n) ;\n')
        cell, ipins, opin = 'MYGATE', ['en', 'en-n'], 'q'
    elif lib == 'custom':
        tlib = techlib.TechLib('MYNAND2 output(Y) input(A,B) Y=NAND2(A,B) ;\nMYINV input(A) output(Y) Y=INV1(A) ;\n')
        cell, ipins, opin = 'MYNAND2', ['A', 'B'], 'Y'
        if (tlib.pin_index(cell, 'A'), tlib.pin_index(cell, 'B'), tlib.pin_index(cell, 'Y')) != (0, 1, 0):
            raise Violation(f'custom library: pins A, B, Y of "MYNAND2 output(Y) input(A,B)" have positions '
                            f'{(tlib.pin_index(cell, "A"), tlib.pin_index(cell, "B"), tlib.pin_index(cell, "Y"))}, inputs and outputs are each numbered from 0 in declaration order')
    else:
        tlib = getattr(techlib, lib)
        cell, ipins, opin = LIBS[lib]['cells'][('NAND', 2)]
    c = Circuit('top')
    a, b_, z = Node(c, 'a', 'input'), Node(c, 'b', 'input'), Node(c, 'z', 'output')
    fa, fb, fz = Node(c, 'a'), Node(c, 'b'), Node(c, 'z')
    u1 = Node(c, 'u1', cell)
    todo = [lambda: Line(c, fa, (u1, tlib.pin_index(cell, ipins[0]))), lambda: Line(c, fb, (u1, tlib.pin_index(cell, ipins[1]))),
            lambda: Line(c, (u1, tlib.pin_index(cell, opin)), fz), lambda: Line(c, a, fa), lambda: Line(c, b_, fb), lambda: Line(c, fz, z)]
    k = case['first']
    lines = [f() for f in todo[k:] + todo[:k]]          # creation order rotated: line 0 is the one into pin A / pin B / out of the cell
    for n in (a, b_, z):
        c.io_nodes.append(n)
    text = f'''(DELAYFILE (SDFVERSION "OVI 2.1") (DESIGN "top")
(CELL (CELLTYPE "{cell}") (INSTANCE u1)
  (DELAY (ABSOLUTE (IOPATH {ipins[0]} {opin} (1.0:2.0:3.0) (4.0:5.0:6.0)) (IOPATH (negedge {ipins[1]}) {opin} (0.5::0.75) ()))))
)'''
    got = np.array(sdf.parse(text).iopaths(c, tlib))
    exp = np.zeros((3, len(c.lines), 2, 2))
    la = u1.ins[tlib.pin_index(cell, ipins[0])].index
    lb = u1.ins[tlib.pin_index(cell, ipins[1])].index
    exp[:, la, :, 0] = np.array([1.0, 2.0, 3.0])[:, None]
    exp[:, la, :, 1] = np.array([4.0, 5.0, 6.0])[:, None]
    exp[:, lb, 1, 0] = [0.5, 0.0, 0.75]
    if got.shape != exp.shape or not np.array_equal(got, exp):
        bad = np.argwhere(got != exp)[0].tolist() if got.shape == exp.shape else None
        raise Violation(f'{lib}: circuit built with Node/Line, pin {ipins[0]} fed by line {la}, pin {ipins[1]} by line {lb}: iopaths differs at {bad}: '
                        f'{got[tuple(bad)] if bad else got.shape} instead of {exp[tuple(bad)] if bad else exp.shape}')
    return Obs(la == 0 or lb == 0, [lib, f'first_line_{["into_pin0", "into_pin1", "out_of_cell"][k]}'], checks=int(exp.size))


PARTS = [Part('api', prop_api, enumerate=enum_api, quick=(2, 0), thorough=(2, 0)),
         Part('annotate', prop, strategy=cases, quick=(8, 120), thorough=(16, 2500))]
