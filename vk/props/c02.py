"""C02 - 4-/8-valued simulation follows the documented algebra and is X-sound."""
import itertools

import numpy as np
from hypothesis import strategies as st

from vk.core import Violation, Obs, Part
from vk import refmodel as rm, strategies as S
from vk.build import build, pack_bp, unpack_bp

ID = 'C02'
RULE = ('Part wide: a fixed small sequential netlist with 8193 .. 70001 patterns in one batch (4- and 8-valued). Part simmv: Hypothesis-generated netlists (as C01) x m in {4,8} x stimuli over {0,1,X,-} (m=4) / all eight values (m=8), biased to '
        'few unknowns x batch sizes x {c_reuse} x {strip_forks}. Oracles: (1) gate-by-gate composition in an independent abstract '
        'algebra (X and - compared as one class), (2) X-soundness: every plain 0/1 result equals the 2-valued evaluation under every '
        '0/1 completion of the unknown inputs (all 2^u for u<=8, else 64 generated), applied to initial and final components, '
        '(3) for stimuli without unknowns: no result is unknown and (init, final) = 2-valued evaluation of inputs (init, final). '
        'non-trivial: a complex (AO/OA/AOI/OAI/MUX) or 3-/4-input gate evaluated on a tuple containing an unknown or active value, '
        'and at least one captured result that is not unknown; distinct by SHA-1 of the case.')
ASSUMPTIONS = ['abstract algebra in vk/refmodel.py re-states the semantics documented in kyupy/logic.py (controlling constant dominates, '
               'unknown otherwise propagates, activity is the union of operand activity)',
               'X and - are one class on the result side (the statement says "unknown or unassigned")']

A4 = [0, 3, 1, 2]
A8 = list(range(8))


@st.composite
def cases(draw, tier):
    big = tier == 'thorough'
    nl = draw(S.netlists(max_g=30 if big else 12, max_pi=6 if big else 5, max_st=3, need_d=False))
    m = draw(st.sampled_from([4, 8]))
    sims = draw(S.SIMS.filter(lambda x: x <= 24))
    n = nl['pi'] + len(nl['st'])
    mode = draw(st.integers(0, 3))
    if m == 4:
        alpha = [0, 3] * (1 + 2 * mode) + [1, 2]
    else:
        alpha = ([0, 3] * (1 + mode) + [5, 6, 4, 7] * 2 + [1, 2]) if mode else [0, 3, 4, 5, 6, 7]
    rows = draw(S.codes(n, sims, alpha))
    comp = draw(st.lists(st.integers(0, (1 << 30) - 1), min_size=16, max_size=16))
    return dict(nl=nl, m=m, sims=sims, stim=rows, fill=draw(st.integers(0, 7 if m == 8 else 3)),
                c_reuse=draw(st.booleans()), strip_forks=draw(st.booleans()), comp=comp, cyc=draw(st.sampled_from([0, 0, 1, 2, 3])))


def run_sim(case, b, m):
    from kyupy.logic_sim import LogicSim
    nl, sims = case['nl'], case['sims']
    c = b.c
    sim = LogicSim(c, sims, m=m, c_reuse=case['c_reuse'], strip_forks=case['strip_forks'])
    s_len = len(c.s_nodes)
    pi_pos = [b.s_pos(n) for n in b.pi]
    st_pos = [b.s_pos(n) for n in b.st]
    if sim.s.shape != (2, s_len, 3, (sims + 7) // 8):
        raise Violation(f's has shape {sim.s.shape}, expected (2, {s_len} ports+state elements, 3, ceil({sims}/8))')
    stim = np.full((s_len, sims), case['fill'], dtype=np.uint8)
    for k, p in enumerate(pi_pos + st_pos):
        stim[p] = case['stim'][k]
    sim.s[0] = pack_bp(stim)
    if case.get('cyc') and sims <= 64:
        # through cycle(): the assignments of the primary inputs stay what the caller wrote (the state transfer concerns state elements only),
        # and without state elements every cycle repeats the same propagation
        pi_rows = np.array(sim.s[0][pi_pos])
        sim.cycle(case['cyc'])
        if not np.array_equal(np.array(sim.s[0][pi_pos]), pi_rows):
            raise Violation(f'm={m}: cycle({case["cyc"]}) changed the assignment of a primary input: {unpack_bp(pi_rows, sims).tolist()} became '
                            f'{unpack_bp(np.array(sim.s[0][pi_pos]), sims).tolist()}')
        if not nl['st']:
            return unpack_bp(sim.s[1], sims), pi_pos, st_pos
        sim.s[0] = pack_bp(stim)
    sim.s_to_c(); sim.c_prop(); sim.c_to_s()
    return unpack_bp(sim.s[1], sims), pi_pos, st_pos


def cls(code):
    return 'U' if code in (1, 2) else code


def prop(case):
    nl, sims, m = case['nl'], case['sims'], case['m']
    b = build(nl)
    res, pi_pos, st_pos = run_sim(case, b, m)
    po_pos = [b.s_pos(n) for n in b.po]
    npi = nl['pi']
    watch = [(po_pos[k], src, f'output o{k} <- {src}') for k, src in enumerate(nl['po'])]
    watch += [(st_pos[k], s['d'], f'state s{k} data <- {s["d"]}') for k, s in enumerate(nl['st']) if s['d'] is not None]
    any_known = False
    interesting = False
    nchecks = 0
    for lane in range(sims):
        pi = [case['stim'][k][lane] for k in range(npi)]
        stt = [case['stim'][npi + k][lane] for k in range(len(nl['st']))]
        sig = rm.evalmv(nl, pi, stt)
        # oracle 1: algebra
        for row, src, what in watch:
            got = int(res[row][lane])
            exp = rm.enc(sig[src])
            if m == 4:
                got &= 3
            if cls(got) != cls(exp):
                raise Violation(f'{what}: lane {lane} m={m} captured code {got}, algebra says {exp} (inputs {pi} state {stt})')
            nchecks += 1
            if cls(got) != 'U':
                any_known = True
        # is a complex gate fed with something non-Boolean?
        if not interesting:
            for k, g in enumerate(nl['g']):
                if g['f'] in rm.FIXED and rm.FIXED[g['f']] >= 3 or (g['f'] in rm.VARIADIC and rm.arity(g['f'], g['i']) >= 3):
                    if any(p is not None and (sig[p] == rm.U or sig[p][2]) for p in g['i']):
                        interesting = True
                        break
        # oracle 2/3: Boolean completions of unknown inputs, per component
        allin = pi + stt
        unk = [i for i, v in enumerate(allin) if v in (1, 2)]
        if len(unk) <= 8:
            comps = list(itertools.product([0, 1], repeat=len(unk)))
        else:
            comps = [[(r >> j) & 1 for j in range(len(unk))] for r in case['comp']] + [[0] * len(unk), [1] * len(unk)]
        if lane >= 3 and len(comps) > 16:
            comps = comps[:16]
        for comp in comps:
            ini = [(v >> 1) & 1 for v in allin]
            fin = [v & 1 for v in allin]
            for j, i in enumerate(unk):
                ini[i] = fin[i] = comp[j]
            for which, bits in (('initial', ini), ('final', fin)):
                s2 = rm.eval2(nl, bits[:npi], bits[npi:], 1)
                for row, src, what in watch:
                    got = int(res[row][lane])
                    if m == 4:
                        got &= 3
                    if cls(got) == 'U':
                        if not unk:
                            raise Violation(f'{what}: lane {lane} result unknown although no input is unknown')
                        continue
                    g = ((got >> 1) & 1) if which == 'initial' else (got & 1)
                    if g != s2[src]:
                        raise Violation(f'{what}: lane {lane} m={m} {which} component of code {got} contradicts 2-valued '
                                        f'evaluation {s2[src]} under completion {comp} of inputs {allin}')
                    nchecks += 1
    labels = ['m%d' % m, 'style_' + nl['style']]
    if interesting: labels.append('complex_gate_nonboolean_operand')
    if any_known: labels.append('some_result_known')
    if case['c_reuse']: labels.append('c_reuse')
    if case['strip_forks']: labels.append('strip_forks')
    if any(p is None for g in nl['g'] for p in g['i']): labels.append('open_pin')
    return Obs(interesting and any_known, labels, checks=nchecks)


def enum_wide(tier):
    """batches far beyond the generated 1..24 patterns (implementations that work on the pattern axis in blocks)"""
    from vk.props.c01 import WIDE_NL
    sizes = [(8193, 4), (8200, 8), (20011, 8)] if tier == 'quick' else [(8192, 4), (8193, 4), (8193, 8), (16385, 4), (32769, 8), (70001, 4)]
    for j, (sims, m) in enumerate(sizes):
        x = 0x2545f4914f6cdd1d + j
        alpha = [0, 3, 0, 3, 1, 2] if m == 4 else [0, 3, 5, 6, 4, 7, 0, 3, 1]
        rows = []
        for _ in range(4):
            row = []
            for _ in range(sims):
                x = (x * 6364136223846793005 + 1442695040888963407) % (1 << 64)
                row.append(alpha[(x >> 33) % len(alpha)])
            rows.append(row)
        yield dict(nl=WIDE_NL, m=m, sims=sims, stim=rows, fill=0, c_reuse=bool(j & 1), strip_forks=bool(j & 2), comp=[j * 7919 + k for k in range(16)])


PARTS = [Part('simmv', prop, strategy=cases, quick=(8, 700), thorough=(16, 12000)),
         Part('wide', prop, enumerate=enum_wide, quick=(3, 0), thorough=(6, 0))]
