"""C12 - multi-valued operators agree across both storage formats and the algebra."""
import itertools

import numpy as np
from hypothesis import strategies as st

from vk.core import Violation, Obs, Part
from vk import refmodel as rm
from vk.build import pack_bp, unpack_bp

ID = 'C12'
RULE = ('Part bigarr: mv_and / mv_or / mv_xor on operands of 2.1-5.4 million elements with a broadcast second operand. (zero-dimensional operands on either side are part of the arrays part) ' +
        'Part tables (exhaustive): every operator (NOT/BUF with 1 operand; AND/OR/XOR with k=1..4 operands) in the formats bp8v, bp4v, bp4v on three-plane operands whose third plane is arbitrary (the 4-valued operators consider bit0 and bit1 only), '
        'mv (public 2-operand functions, nested for k>2; the private n-ary array kernels are not called directly), on ALL 8^k (4^k for the 4-valued operators) operand '
        'tuples; one enumerated case = (format, operator, k, first operand) and covers all tuples with that first operand, evaluated '
        'packed side by side in lanes and again one tuple alone. Oracle: independent abstract algebra; Boolean restriction; De Morgan. '
        'Part arrays (Hypothesis): array shapes up to 4-D, broadcasting pairs, lane counts, out= (C/F order; an out array aliasing an operand is NOT generated: nothing promises it). '
        'non-trivial: tuple block / array contains a non-Boolean value; distinct by SHA-1 of the case. In one array case of ten the same array object is passed as both operands; the result must be code for code what the call with a copy returns.')
ASSUMPTIONS = ['algebra of vk/refmodel.py = semantics documented in logic.py; X and - form one class on the result side']


def cls_arr(a):
    a = np.array(a, dtype=np.uint8)
    a[a == 2] = 1
    return a


def ref_op(op, tup):
    v = [rm.dec(x) for x in tup]
    if op == 'not': return rm.enc(rm.mv_not(v[0]))
    if op == 'buf': return rm.enc(v[0])
    if op == 'and': return rm.enc(rm.mv_and(v))
    if op == 'or': return rm.enc(rm.mv_or(v))
    if op == 'xor': return rm.enc(rm.mv_xor(v))
    raise ValueError(op)


def enum_tables(tier):
    for fmt in ('bp8', 'bp4', 'bp4w', 'mv'):
        alpha = [0, 1, 2, 3] if fmt == 'bp4' else list(range(8))
        for op in ('not', 'buf', 'and', 'or', 'xor'):
            if op == 'buf' and fmt == 'mv':
                continue
            ks = [1] if op in ('not', 'buf') else [1, 2, 3, 4]
            if fmt == 'mv' and op in ('and', 'or', 'xor'):
                ks = [2, 3, 4]
            for k in ks:
                for a in alpha:
                    yield dict(fmt=fmt, op=op, k=k, a=a)


def apply_impl(fmt, op, cols):
    """cols: list of k uint8 arrays (n,) of codes. Returns result codes (n,)."""
    from kyupy import logic
    n = len(cols[0])
    if fmt in ('bp8', 'bp4', 'bp4w'):
        planes = 3 if fmt == 'bp8' else 2
        ins = [np.ascontiguousarray(pack_bp(c[np.newaxis, :])[0, :(3 if fmt == 'bp4w' else planes)]) for c in cols]
        before = [i.copy() for i in ins]
        out = np.full_like(ins[0][:planes], 0x5a)
        f = getattr(logic, f'bp{8 if fmt == "bp8" else 4}v_{op}')
        r = f(out, *ins)
        if r is not out:
            raise Violation(f'{f.__name__} does not return its output array')
        for i, b in zip(ins, before):
            if not np.array_equal(i, b):
                raise Violation(f'{f.__name__} modified an operand')
        full = np.zeros((3, out.shape[-1]), dtype=np.uint8)
        full[:planes] = out
        return unpack_bp(full[np.newaxis], n)[0]
    if fmt == 'mv':
        f = getattr(logic, f'mv_{op}')
        if op == 'not':
            return f(cols[0])
        r = f(cols[0], cols[1])
        for c in cols[2:]:
            r = f(r, c)
        return r
    raise ValueError(fmt)


def prop_tables(case):
    fmt, op, k, a = case['fmt'], case['op'], case['k'], case['a']
    alpha = [0, 1, 2, 3] if fmt == 'bp4' else list(range(8))
    tuples = [(a,) + rest for rest in itertools.product(alpha, repeat=k - 1)]
    cols = [np.array([t[j] for t in tuples], dtype=np.uint8) for j in range(k)]
    got = np.array(apply_impl(fmt, op, [c.copy() for c in cols]), dtype=np.uint8)
    if fmt == 'bp4w':         # "4-valued logic only considers bit0 and bit1" (logic.py): three-plane operands with any third plane, two-plane destination
        tuples = [tuple(x & 3 for x in t) for t in tuples]
    exp = np.array([ref_op(op, t) for t in tuples], dtype=np.uint8)
    bad = np.flatnonzero(cls_arr(got) != cls_arr(exp))
    if len(bad):
        i = int(bad[0])
        raise Violation(f'{fmt} {op}{tuples[i]} = {int(got[i])}, algebra says {int(exp[i])}')
    # alone (single lane / single element): first, last and every 7th tuple
    for i in list(range(0, len(tuples), 7)) + [len(tuples) - 1]:
        g1 = np.array(apply_impl(fmt, op, [c[i:i + 1].copy() for c in cols]), dtype=np.uint8)
        if cls_arr(g1)[0] != cls_arr(exp[i:i + 1])[0]:
            raise Violation(f'{fmt} {op}{tuples[i]} evaluated alone = {int(g1[0])}, algebra says {int(exp[i])}')
    # Boolean restriction
    for i, t in enumerate(tuples):
        if all(x in (0, 3) for x in t):
            b = [x == 3 for x in t]
            e = {'not': not b[0], 'buf': b[0], 'and': all(b), 'or': any(b), 'xor': sum(b) % 2 == 1}[op]
            if int(got[i]) != (3 if e else 0):
                raise Violation(f'{fmt} {op}{t} = {int(got[i])} is not the Boolean operator')
    # De Morgan (implementation against itself): NOT(AND(x..)) == OR(NOT x..) and dual
    if op in ('and', 'or') and not (fmt == 'mv' and k < 2):
        dual = 'or' if op == 'and' else 'and'
        lhs = np.array(apply_impl(fmt, 'not', [got.copy()]), dtype=np.uint8)
        ncols = [np.array(apply_impl(fmt, 'not', [c.copy()]), dtype=np.uint8) for c in cols]
        rhs = np.array(apply_impl(fmt, dual, ncols), dtype=np.uint8)
        bad = np.flatnonzero(cls_arr(lhs) != cls_arr(rhs))
        if len(bad):
            i = int(bad[0])
            raise Violation(f'{fmt} De Morgan fails for {op}{tuples[i]}: NOT({op}) = {int(lhs[i])}, {dual}(NOT..) = {int(rhs[i])}')
    nontrivial = any(x not in (0, 3) for t in tuples for x in t)
    return Obs(nontrivial, [fmt, op, f'k{k}'], checks=len(tuples))


# ---------------------------------------------------------------------------------------------

SHAPES = st.sampled_from([0, 1, 1, 1, 2, 2, 2, 3, 3, 4]).flatmap(lambda n: st.lists(st.integers(1, 4), min_size=n, max_size=n)).map(tuple)      # () = zero-dimensional array


@st.composite
def array_cases(draw, tier):
    op = draw(st.sampled_from(['not', 'and', 'or', 'xor']))
    shape = draw(SHAPES)
    # broadcasting: second operand drops leading dims / has size-1 dims
    shape2 = list(shape)
    bmode = draw(st.integers(0, 3))
    if bmode == 1 and shape2:
        shape2 = shape2[draw(st.integers(0, len(shape2))):]          # may drop all dimensions: a zero-dimensional second operand
    elif bmode == 2 and shape2:
        j = draw(st.integers(0, len(shape2) - 1)); shape2[j] = 1
    elif bmode == 3 and draw(st.booleans()):
        shape, shape2 = tuple(shape2), list(shape)
        shape2 = list(draw(SHAPES)) if not shape else shape2
        shape = ()                                                   # zero-dimensional first operand against any second operand
    n1 = int(np.prod(shape)); n2 = int(np.prod(shape2))
    alpha = st.integers(0, 7)
    a = draw(st.lists(alpha, min_size=n1, max_size=n1))
    b = draw(st.lists(alpha, min_size=n2, max_size=n2))
    out = draw(st.sampled_from(['none', 'none', 'C', 'F', 'T', 'S']))      # caller-supplied destination: C / Fortran order, a transposed or a strided view
    outfill = draw(st.integers(0, 7))
    same = draw(st.integers(0, 9)) == 0            # now and then one array object is passed as both operands
    return dict(op=op, shape=list(shape), shape2=list(shape2), a=a, b=b, out=out, outfill=outfill, same=same)


def prop_arrays(case):
    from kyupy import logic
    op = case['op']
    x1 = np.array(case['a'], dtype=np.uint8).reshape(case['shape'])
    x2 = np.array(case['b'], dtype=np.uint8).reshape(case['shape2'])
    if case.get('same') and op != 'not':
        x2 = x1
    x1c, x2c = x1.copy(), x2.copy()
    f = getattr(logic, f'mv_{op}')
    args = [x1] if op == 'not' else [x1, x2]
    bshape = np.broadcast(*args).shape
    out = None
    if case['out'] in ('C', 'F') or (case['out'] in ('T', 'S') and len(bshape) == 0):
        out = np.full(bshape, case['outfill'], dtype=np.uint8, order='F' if case['out'] == 'F' else 'C')
    elif case['out'] == 'T':
        out = np.full(bshape[::-1], case['outfill'], dtype=np.uint8).T
    elif case['out'] == 'S':
        out = np.full(tuple(2 * d for d in bshape), case['outfill'], dtype=np.uint8)[tuple(slice(None, None, 2) for _ in bshape)]
    refused_first = (len(case['a']) + case['outfill']) % 3 == 0
    if refused_first:
        # history: an earlier call in the same process, on operands of the same shapes holding only unknown / unassigned values, that is refused
        # (a read-only destination, or one of a shape nothing broadcasts to); whatever it raised, the next call is a call like any other
        u1 = np.full(x1.shape, 1, dtype=np.uint8); u1.reshape(-1)[::2] = 2
        u2 = np.full(x2.shape, 2, dtype=np.uint8); u2.reshape(-1)[::2] = 1
        if case['outfill'] % 2:
            bad_out = np.zeros(bshape, dtype=np.uint8); bad_out.flags.writeable = False
        else:
            bad_out = np.zeros((7,) + tuple(d + 3 for d in bshape), dtype=np.uint8)
        try:
            f(*([u1] if op == 'not' else [u1, u2]), out=bad_out)
        except Exception:          # refused; how is not the subject
            pass
    if out is not None and case['outfill'] % 2 and op != 'not':
        r = f(*args, out)                      # the documented signature is (x1, x2, out=None): the destination may be given by position
    elif out is not None and case['outfill'] % 2:
        r = f(args[0], out)
    else:
        r = f(*args) if out is None else f(*args, out=out)
    if out is not None and r is not out:
        raise Violation(f'mv_{op}(out=...) returned a different array than the caller-supplied one')
    if out is not None:             # the destination receives *the* result: code for code what the call without out= returns
        r_plain = f(*args)
        if not np.array_equal(np.asarray(r_plain), np.asarray(out)):
            bad = np.argwhere(np.asarray(r_plain) != np.asarray(out))[0].tolist()
            raise Violation(f'mv_{op} with out= ({case["out"]} layout) holds {np.asarray(out)[tuple(bad)]} at {bad}, the call without out= returns '
                            f'{np.asarray(r_plain)[tuple(bad)]}')
    if x2 is x1 and op != 'not':     # element-wise: the result is a function of the values, whether or not both operands are one object
        r_copy = f(x1, x1.copy())
        if not np.array_equal(np.asarray(r_copy), np.asarray(r)):
            bad = np.argwhere(np.asarray(r_copy) != np.asarray(r))[0].tolist()
            raise Violation(f'mv_{op}(x, x) holds {np.asarray(r)[tuple(bad)]} at {bad} (x = {int(x1c[tuple(bad)])} there), mv_{op}(x, x.copy()) returns '
                            f'{np.asarray(r_copy)[tuple(bad)]}')
    if r.shape != bshape:
        raise Violation(f'mv_{op}: result shape {r.shape} != broadcast shape {bshape}')
    a1 = np.broadcast_to(x1c, bshape); a2 = np.broadcast_to(x2c, bshape) if op != 'not' else None
    for idx in np.ndindex(*bshape):
        t = (int(a1[idx]),) if op == 'not' else (int(a1[idx]), int(a2[idx]))
        e = ref_op(op, t)
        g = int(r[idx])
        if (1 if g == 2 else g) != (1 if e == 2 else e):
            raise Violation(f'mv_{op} at {idx}: {t} -> {g}, algebra says {e} (out={case["out"]})')
    if not np.array_equal(x1, x1c):
        raise Violation(f'mv_{op} modified its first operand')
    if op != 'not' and not np.array_equal(x2, x2c):
        raise Violation(f'mv_{op} modified its second operand')
    # bit-parallel form with leading dimensions: signals on the second-to-last axis after packing
    if op != 'not' and x1.shape == x2.shape and x1.ndim >= 2:
        bf = getattr(logic, f'bp8v_{op}')
        p1 = pack_bp(x1c.reshape(-1, x1.shape[-1])); p2 = pack_bp(x2c.reshape(-1, x1.shape[-1]))
        o = np.zeros_like(p1)
        bf(o, p1, p2)
        got = unpack_bp(o, x1.shape[-1]).reshape(x1.shape)
        if not np.array_equal(cls_arr(got), cls_arr(r)):
            raise Violation(f'bp8v_{op} and mv_{op} disagree on arrays of shape {x1.shape}')
    labels = [op, 'out_' + case['out'], f'ndim{len(bshape)}']
    if x1.shape != x2.shape and op != 'not': labels.append('broadcast')
    if x2 is x1 and op != 'not': labels.append('same_object_twice')
    if refused_first: labels.append('after_a_refused_call')
    if x1.ndim == 0: labels.append('first_operand_0d')
    if x2.ndim == 0 and op != 'not': labels.append('second_operand_0d')
    nontrivial = any(v not in (0, 3) for v in case['a'])
    return Obs(nontrivial, labels, checks=int(np.prod(bshape)))


def enum_bigarr(tier):
    """operands of more than 2^20 / 2^22 elements, the second one broadcast along the first or the last axis or zero-dimensional"""
    shapes = [((48, 50021), (48, 1)), ((48, 50021), ()), ((3, 700001), (1, 700001))]
    if tier == 'thorough':
        shapes += [((2, 3, 900001), (3, 1)), ((1100001,), (1,)), ((64, 70000), (64, 70000))]
    for j, (sa, sb) in enumerate(shapes):
        for op in ('and', 'or', 'xor'):
            yield dict(op=op, sa=list(sa), sb=list(sb), out=['none', 'C', 'F'][(j + len(op)) % 3])


def prop_bigarr(case):
    from kyupy import logic
    op, sa, sb = case['op'], tuple(case['sa']), tuple(case['sb'])
    na, nb = int(np.prod(sa)), int(np.prod(sb))
    x = (((np.arange(na, dtype=np.uint64) * np.uint64(2654435761)) >> np.uint64(11)) % np.uint64(8)).astype(np.uint8).reshape(sa)
    y = (((np.arange(nb, dtype=np.uint64) * np.uint64(40503)) >> np.uint64(3)) % np.uint64(8)).astype(np.uint8).reshape(sb)
    lut = np.array([[ref_op(op, (a, b)) for b in range(8)] for a in range(8)], dtype=np.uint8)
    exp = lut[x, np.broadcast_to(y, np.broadcast(x, y).shape)]
    f = getattr(logic, f'mv_{op}')
    out = None if case['out'] == 'none' else np.full(exp.shape, 7, dtype=np.uint8, order=case['out'])
    r = f(x, y) if out is None else f(x, y, out=out)
    r = np.asarray(r)
    norm = lambda a: np.where(a == 2, 1, a)
    if r.shape != exp.shape or not np.array_equal(norm(r), norm(exp)):
        bad = np.argwhere(norm(r) != norm(exp))[0].tolist() if r.shape == exp.shape else None
        raise Violation(f'mv_{op} on operands of shape {sa} and {sb} (out={case["out"]}): ' +
                        (f'result {r[tuple(bad)]} at {bad}, algebra says {exp[tuple(bad)]}' if bad else f'result shape {r.shape}, expected {exp.shape}'))
    return Obs(True, [op, 'second_operand_' + ('0d' if not sb else 'last_axis_1' if sb[-1] == 1 else 'other')], checks=int(exp.size))


PARTS = [Part('bigarr', prop_bigarr, enumerate=enum_bigarr, quick=(3, 0), thorough=(6, 0)),
         Part('tables', prop_tables, enumerate=enum_tables, quick=(4, 0), thorough=(8, 0)),
         Part('arrays', prop_arrays, strategy=array_cases, quick=(4, 400), thorough=(16, 15000))]
