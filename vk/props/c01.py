"""C01 - 2-valued logic simulation computes the netlist's Boolean function."""
import numpy as np
from hypothesis import strategies as st

from vk.core import Violation, Obs, Part
from vk import refmodel as rm, strategies as S
from vk.build import build, pack_bp, unpack_bp

ID = 'C01'
RULE = ('Hypothesis-generated abstract netlists (33 primitives through all documented kind spellings, forks, fork chains, '
        'DFF Q/QN, latches, open input pins, open outputs, both port styles) x 0/1 stimuli x batch sizes 1..70 x 1..4 (sometimes 9, 33, 1100, 2600) cycles '
        'x {c_reuse} x {strip_forks}; oracle = own gate-by-gate evaluator. non-trivial: depth >= 3 and at least one of '
        '{reconvergent fan-out, state element feeding logic, open pin, batch size not a multiple of 8, >= 2 cycles}; '
        'distinct by SHA-1 of the case. Part wide: a fixed small sequential netlist with 8193 .. 200003 patterns in one batch. Part big: a few deterministic chains with more than 2^16 nodes and lines and grids of 7k-36k cells with many values alive at once (index and counter arithmetic). In 2 cases of 5 the unconnected operand pins below a gate\'s arity hang on floating nets (undriven forks, one per pin or one shared): they read 0 all the same. In half of the cases a spare flip-flop created last is moved to node index 0 by removing a placeholder node (s_nodes follows the node order). Floating nets also with a pin list [None] (a driver line that was removed again).')
ASSUMPTIONS = ['numba absent: the njit 2-valued loop runs as plain Python (same source)',
               'reference evaluator vk/refmodel.py written from the primitive names, independent of sim.py LUTs']


@st.composite
def cases(draw, tier):
    big = tier == 'thorough'
    nl = draw(S.netlists(max_g=40 if big else 14, max_pi=6 if big else 5, max_st=4 if big else 3, need_d=False))
    sims = draw(S.SIMS)
    cycles = draw(st.sampled_from([0, 0, 1, 2, 3, 4] * 7 + [9, 33, 1100, 2600]))      # 'for all cycle counts': now and then long runs in one cycle() call
    # a state element without data pin: its unconnected pin reads constant 0 like every unconnected input pin, so its next state is 0
    pi = draw(S.bitvecs(nl['pi'], sims))
    stt = draw(S.bitvecs(len(nl['st']), sims))
    fill = draw(st.integers(0, 7))
    return dict(nl=nl, sims=sims, cycles=cycles, pi=pi, st=stt, fill=fill,
                c_reuse=draw(st.booleans()), strip_forks=draw(st.booleans()))


def prop(case):
    from kyupy.logic_sim import LogicSim
    nl, sims = case['nl'], case['sims']
    if any(isinstance(x, str) for x in case['pi'] + case['st']):        # wide bit vectors are stored as hexadecimal strings
        case = dict(case, pi=[int(x, 16) for x in case['pi']], st=[int(x, 16) for x in case['st']])
    mask = (1 << sims) - 1
    b = build(nl)
    c = b.c
    sim = LogicSim(c, sims, m=2, c_reuse=case['c_reuse'], strip_forks=case['strip_forks'])
    s_len = len(c.s_nodes)
    if sim.s.shape != (2, s_len, 3, (sims + 7) // 8):
        raise Violation(f's has shape {sim.s.shape}, expected (2, {s_len} ports+state elements, 3, ceil({sims}/8))')
    pi_pos = [b.s_pos(n) for n in b.pi]
    po_pos = [b.s_pos(n) for n in b.po]
    st_pos = [b.s_pos(n) for n in b.st]
    # documented order: ports, then flip-flops, then latches
    nio = len(c.io_nodes)
    if [id(n) for n in c.s_nodes] != [id(n) for n in b.s_order()]:
        raise Violation(f's_nodes = {[n.name for n in c.s_nodes]}, documented order (ports as listed, flip-flops, latches) is {[n.name for n in b.s_order()]}')
    kinds = ['D' if 'dff' in c.s_nodes[i].kind.lower() else 'L' for i in range(nio, s_len)]
    spare = [b.s_pos(n) for n in c.nodes if n.name == 'zz_spare_ff']        # the builder's spare flip-flop (edit history), not part of the netlist
    if kinds != sorted(kinds) or sorted(st_pos + spare) != list(range(nio, s_len)):
        raise Violation(f's_nodes order is not ports, flip-flops, latches: {kinds} {st_pos}')
    stim = np.full((s_len, sims), case['fill'], dtype=np.uint8)
    for k, p in enumerate(pi_pos):
        stim[p] = [3 * ((case['pi'][k] >> l) & 1) for l in range(sims)]
    for k, p in enumerate(st_pos):
        stim[p] = [3 * ((case['st'][k] >> l) & 1) for l in range(sims)]
    bp = pack_bp(stim)
    sim.s[0] = bp
    pi_before = np.array(sim.s[0][pi_pos])
    cycles = case['cycles']
    state = list(case['st'])
    if cycles == 0:
        sim.s_to_c(); sim.c_prop(); sim.c_to_s()
        sig = rm.eval2(nl, case['pi'], state, mask)
    else:
        sim.cycle(cycles)
        for _ in range(cycles):
            sig = rm.eval2(nl, case['pi'], state, mask)
            state = [sig[s['d']] if s['d'] is not None else 0 for k, s in enumerate(nl['st'])]
    res = unpack_bp(sim.s[1], sims)

    def expect(row, val, what):
        exp = np.array([3 * ((val >> l) & 1) for l in range(sims)], dtype=np.uint8)
        if not np.array_equal(res[row], exp):
            lane = int(np.flatnonzero(res[row] != exp)[0])
            raise Violation(f'{what}: lane {lane} captured code {int(res[row][lane])}, expected {int(exp[lane])}')

    for k, src in enumerate(nl['po']):
        expect(po_pos[k], sig[src], f'output o{k} <- {src}')
    for k, s in enumerate(nl['st']):
        if s['d'] is not None:
            expect(st_pos[k], sig[s['d']], f'state element s{k} data <- {s["d"]}')
    if cycles:
        a = unpack_bp(sim.s[0], sims)
        for k, p in enumerate(st_pos):
            exp = np.array([(state[k] >> l) & 1 for l in range(sims)], dtype=np.uint8)
            if not np.array_equal(a[p] & 1, exp):
                raise Violation(f'after {cycles} cycles state s{k} = {(a[p] & 1).tolist()} expected {exp.tolist()}')
        if not np.array_equal(np.array(sim.s[0][pi_pos]), pi_before):
            raise Violation('cycle() modified primary input assignments')
    # classification
    depth = rm.depth(nl)
    rd = rm.readers(nl)
    state_feeds = any(s[0] in 'sn' and any(r[0] == 'g' for r in rl) for s, rl in rd.items())
    open_pin = any(p is None for g in nl['g'] for p in g['i'])
    open_out = any(f'g{k}' not in rd for k in range(len(nl['g'])))
    reconv = rm.has_reconvergence(nl)
    labels = []
    if reconv: labels.append('reconvergent')
    if state_feeds: labels.append('state_feeds_logic')
    if open_pin: labels.append('open_pin')
    if open_out: labels.append('open_output')
    if sims % 8: labels.append('sims_not_mult8')
    if cycles >= 2: labels.append('cycles>=2')
    if depth >= 3: labels.append('depth>=3')
    if any(s['t'] == 'L' for s in nl['st']): labels.append('latch')
    if any(s[0] == 'n' for s in rd): labels.append('dff_qn')
    labels.append('style_' + nl['style'])
    if case['c_reuse']: labels.append('c_reuse')
    if case['strip_forks']: labels.append('strip_forks')
    if case['strip_forks'] and nl.get('frev') and any(m in 'CL' for m in nl['w'].values()): labels.append('stripped_chain_built_downstream_first')
    nontrivial = depth >= 3 and (reconv or state_feeds or open_pin or sims % 8 != 0 or cycles >= 2)
    return Obs(nontrivial, labels, checks=len(nl['po']) + len(nl['st']))


def enum_big(tier):
    """a few circuits with more than 2^16 lines and nodes (index arithmetic in narrow integer types would wrap)"""
    yield dict(n=70000, c_reuse=False, strip_forks=False, sims=3)
    yield dict(n=70000, c_reuse=True, strip_forks=True, sims=9)
    yield dict(grid=(24, 320), c_reuse=True, strip_forks=False, sims=11)      # > 2^15 references to the constant-0 slot, 24 values alive
    yield dict(grid=(24, 320), c_reuse=False, strip_forks=True, sims=5)
    yield dict(rand=(8, 9000, 24, 60, 1), c_reuse=True, strip_forks=False, sims=13)
    yield dict(rand=(16, 6000, 40, 200, 2), c_reuse=True, strip_forks=True, sims=7)
    yield dict(ladder=1500, c_reuse=False, strip_forks=True, sims=5)          # fork chain deeper than Python's default recursion limit
    yield dict(ladder=1500, c_reuse=True, strip_forks=False, sims=9)
    if tier == 'thorough':
        yield dict(grid=(40, 900), c_reuse=True, strip_forks=True, sims=3)    # > 2^16 such references
        yield dict(grid=(7, 2000), c_reuse=True, strip_forks=False, sims=64)
        for k in range(3, 9):
            yield dict(rand=(4 + k, 4000 * k, 30, 20 * k * k, k), c_reuse=k != 5, strip_forks=bool(k & 1), sims=1 + 9 * k)
        yield dict(n=140000, c_reuse=True, strip_forks=False, sims=1)
        yield dict(n=33000, c_reuse=False, strip_forks=True, sims=17)


def prop_big(case):
    from kyupy.circuit import Circuit, Node, Line
    from kyupy.logic_sim import LogicSim
    if 'grid' in case or 'rand' in case or 'ladder' in case:
        return prop_grid(case)
    n, sims = case['n'], case['sims']
    mask = (1 << sims) - 1
    c = Circuit('big')
    a = Node(c, 'a', 'input'); b_ = Node(c, 'b', 'input')
    c.io_nodes.append(a); c.io_nodes.append(b_)
    fa = Node(c, 'a'); Line(c, a, fa)
    prev = Node(c, 'b'); Line(c, b_, prev)          # fork carrying the running signal
    kinds = ['inv', 'xor2', 'buf', 'nand2', 'xnor2']
    va, vb = 0x2b5 & mask, 0x1c9 & mask
    val = vb
    for k in range(n // 2):                          # every stage: one cell + one fork = 2 nodes, 2-3 lines
        kind = kinds[k % len(kinds)]
        g = Node(c, f'g{k}', kind)
        Line(c, prev, g)
        if kind in ('xor2', 'nand2', 'xnor2'):
            Line(c, fa, g)
        f = Node(c, f'n{k}')
        Line(c, g, f)
        prev = f
        val = {'inv': ~val, 'buf': val, 'xor2': val ^ va, 'nand2': ~(val & va), 'xnor2': ~(val ^ va)}[kind] & mask
    o = Node(c, 'o', 'output'); c.io_nodes.append(o); Line(c, prev, o)
    sim = LogicSim(c, sims, m=2, c_reuse=case['c_reuse'], strip_forks=case['strip_forks'])
    stim = np.zeros((3, sims), dtype=np.uint8)
    stim[0] = [3 * ((va >> l) & 1) for l in range(sims)]
    stim[1] = [3 * ((vb >> l) & 1) for l in range(sims)]
    sim.s[0] = pack_bp(stim)
    sim.s_to_c(); sim.c_prop(); sim.c_to_s()
    res = unpack_bp(sim.s[1], sims)[2]
    exp = [3 * ((val >> l) & 1) for l in range(sims)]
    if [int(x) for x in res] != exp:
        raise Violation(f'chain of {n // 2} cells ({len(c.nodes)} nodes, {len(c.lines)} lines): output {res.tolist()}, expected {exp}')
    if len(list(c.topological_order())) != len(c.nodes):
        raise Violation('topological_order incomplete on the large circuit')
    return Obs(True, [f'lines>{2 ** 16}' if len(c.lines) > 2 ** 16 else 'lines>2^15'], checks=1)


def prop_grid(case):
    from kyupy.logic_sim import LogicSim
    from vk import bigcirc
    sims = case['sims']
    mask = (1 << sims) - 1
    if 'grid' in case:
        width, depth = case['grid']
        vals = [(0x9e3779b97f4a7c15 * (j + 3) >> 7) & mask for j in range(width)]
        c, exp = bigcirc.grid(width, depth, vals, mask)
        what = f'grid {width}x{depth}'
    elif 'ladder' in case:
        width = 1
        vals = [0x5a3c96e1 & mask]
        c, exp = bigcirc.forkladder(case['ladder'], vals[0], mask)
        what = f'fork chain of depth {case["ladder"]} built sink first'
    else:
        width, n_gates, n_out, window, sd = case['rand']
        vals = [(0x9e3779b97f4a7c15 * (j + 3 + sd) >> 7) & mask for j in range(width)]
        c, exp = bigcirc.randnet(width, n_gates, n_out, window, sd, vals, mask)
        what = f'irregular netlist {case["rand"]}'
    nout = len(exp)
    sim = LogicSim(c, sims, m=2, c_reuse=case['c_reuse'], strip_forks=case['strip_forks'])
    for rnd in range(2):                                 # the simulator is used twice
        stim = np.zeros((width + nout, sims), dtype=np.uint8)
        for j in range(width):
            stim[j] = [3 * ((vals[j] >> l) & 1) for l in range(sims)]
        sim.s[0] = pack_bp(stim)
        sim.s_to_c(); sim.c_prop(); sim.c_to_s()
        res = unpack_bp(sim.s[1], sims)
        for j in range(nout):
            want = [3 * ((exp[j] >> l) & 1) for l in range(sims)]
            if [int(x) for x in res[width + j]] != want:
                raise Violation(f'{what} ({len(c.lines)} lines) c_reuse={case["c_reuse"]} strip_forks={case["strip_forks"]} round {rnd}: '
                                f'output {j} = {res[width + j].tolist()}, expected {want}')
    return Obs(True, ['grid' if 'grid' in case else 'fork_ladder' if 'ladder' in case else 'irregular', f'cells>={(len(c.nodes) - len(c.forks)) // 1000}k'], checks=2 * nout)


WIDE_NL = dict(pi=3, st=[dict(t='D', k='dff', d='g2', c=None)],
               g=[dict(f='XOR', k='xor2', i=['i0', 's0']), dict(f='NAND', k='nand', i=['g0', 'i1', 'i2']), dict(f='OR', k='or2', i=['g1', 'n0']),
                  dict(f='AOI21', k='aoi21', i=['g2', 'i0', None])],
               po=['g2', 'g3', 'g0'], style='cells', w={'i0': 'F', 'i1': 'D', 'i2': 'D', 's0': 'F', 'n0': 'D', 'g0': 'C', 'g1': 'D', 'g2': 'L', 'g3': 'D'},
               ports=['i0', 'i1', 'i2', 'o0', 'o1', 'o2'], rev=False)


def enum_wide(tier):
    """batches far beyond the generated 1..70 patterns (implementations that work on the pattern axis in blocks)"""
    sizes = [8193, 32769, 70001] if tier == 'quick' else [8193, 32768, 32769, 40000, 65537, 70001, 200003]
    for j, sims in enumerate(sizes):
        x = 0x9e3779b97f4a7c15
        vals = []
        for k in range(4):            # three inputs and one state bit vector from an own multiplicative sequence
            v = 0
            for _ in range(sims // 64 + 1):
                x = (x * 6364136223846793005 + 1442695040888963407) % (1 << 64)
                v = (v << 64) | x
            vals.append(v & ((1 << sims) - 1))
        yield dict(nl=WIDE_NL, sims=sims, cycles=[0, 3, 1][j % 3], pi=[hex(v) for v in vals[:3]], st=[hex(v) for v in vals[3:]], fill=0, c_reuse=bool(j & 1), strip_forks=bool(j & 2))


PARTS = [Part('sim2v', prop, strategy=cases, quick=(8, 500), thorough=(16, 25000)),
         Part('big', prop_big, enumerate=enum_big, quick=(6, 0), thorough=(12, 0)),
         Part('wide', prop, enumerate=enum_wide, quick=(3, 0), thorough=(7, 0))]
