"""C19 - built-in library cells have consistent pins and datasheet Boolean functions."""
import ast
import functools
import itertools

import numpy as np

from vk.core import Violation, Obs, Part, HarnessError
from vk import datasheet
from vk.build import pack_bp, unpack_bp

ID = 'C19'
RULE = ('Complete enumeration of every cell name of GSC180, NANGATE, NANGATE_ZN, SAED32, SAED90: union of the names in TechLib.cells and of '
        'an own brace expansion of the library source text (read from the module source). Per cell: (a) pin table = inputs 0..n-1 and '
        'outputs 0..m-1 in declaration order, each pin once, consistent with the port counts substitute() derives from the implementation '
        'circuit; (b) for every combinational family named in the statement (AND/OR/NAND/NOR/XOR/XNOR n, buffers, inverters, AO/OA/AOI/OAI '
        'groupings, MUX2/MUX4, half/full adders; plus constants and isolation cells) all 2^n input combinations are simulated through the '
        'implementation circuit and compared per output pin with a hand-written datasheet table. non-trivial: cell has a datasheet function '
        'with >= 2 inputs; distinct = distinct (library, cell). Part lookup: all 20 ordered pairs of libraries swept through pin_index / pin_is_output in '
        'one process (first, second, first again) against the declaration order of the own expansion; non-trivial: the two libraries share '
        'a cell name with other pins or another pin order. Before the first cell is judged, each worker also looked pins up by position, by unknown names and by names that resemble a pin name (other case, padded, cut short) (directly and through netlists with positional connections), errors ignored. Part isolation: for every ordered pair of libraries and a sample of the cell names they share, the implementation circuit of the first library\'s cell is edited in place (gate kinds changed), the second library\'s cell is judged as in part cells, the edit is undone. An entry for which the module source holds no declaration text is judged against the port order of its own implementation.')
ASSUMPTIONS = ['datasheet functions in vk/datasheet.py are written from the vendor naming conventions (Nangate A/B1/B2, SAED A1../IN1.., GSC A0/B0)',
               'implementation circuits are evaluated with kyupy LogicSim(m=2) (decided separately by C01)']

LIBS = ['GSC180', 'NANGATE', 'NANGATE_ZN', 'SAED32', 'SAED90']


@functools.lru_cache(None)
def lib_sources():
    """{lib name: source text handed to TechLib(...)}, obtained by evaluating the constructor arguments found in the module source."""
    import kyupy.techlib as tl
    src = open(tl.__file__).read()
    tree = ast.parse(src)
    ns = {}
    out = {}
    for node in tree.body:
        if isinstance(node, ast.Assign) and len(node.targets) == 1 and isinstance(node.targets[0], ast.Name):
            name = node.targets[0].id
            v = node.value
            if isinstance(v, ast.Call) and isinstance(v.func, ast.Name) and v.func.id == 'TechLib':
                out[name] = eval(compile(ast.Expression(v.args[0]), '<lib>', 'eval'), ns)
            else:
                try:
                    ns[name] = eval(compile(ast.Expression(v), '<lib>', 'eval'), ns)
                except Exception:  # noqa
                    pass
    return out


@functools.lru_cache(None)
def expected_cells(lib):
    srcs = lib_sources()
    if lib not in srcs:
        raise HarnessError(f'library {lib} not found in techlib source')
    return datasheet.parse_lib_source(srcs[lib])


def enum_cells(tier):
    import kyupy.techlib as tl
    for lib in LIBS:
        names = set(getattr(tl, lib).cells) | set(expected_cells(lib))
        for name in sorted(names):
            yield dict(lib=lib, cell=name)


_WORKED = False


def other_work():
    """something else the process did before looking at the library: it simulated an edited netlist in which the last input line of some
    3- and 4-input gates had been removed again. (What those gates compute is not judged here; the library cells afterwards are.)"""
    from kyupy import bench
    from kyupy.logic_sim import LogicSim
    kinds = ['NAND', 'NOR', 'AND', 'OR', 'XOR', 'XNOR']
    gates = [(f'{kd}{suffix if suffix != "n" else n}', n) for kd in kinds for n in (3, 4) for suffix in ('', 'n')]     # NAND and NAND3 / NAND4 spellings
    txt = 'input(a,b,c,d) output(' + ','.join(f'y{k}' for k in range(len(gates))) + ')\n'
    for k, (kd, n) in enumerate(gates):
        txt += f'y{k}={kd}({",".join("abcd"[:n])})\n'
    c = bench.parse(txt)
    for n in list(c.cells.values()):
        if n.name.startswith('y') and n.kind not in ('input', 'output') and len(n.ins) >= 3:
            if n.ins[len(n.ins) - 1] is not None:
                n.ins[len(n.ins) - 1].remove()
    sim = LogicSim(c, 4, m=2)
    sim.s_to_c(); sim.c_prop(); sim.c_to_s()
    # ... and it parsed netlists whose text happens to be that of library cells and edited them (its own objects, not the library's)
    import re
    from kyupy.circuit import Node
    for lib, src in sorted(lib_sources().items()):
        entries = [re.sub(r'^\s+', '', e) for e in re.split(r';\s+', src)]
        for e in entries[3::max(1, len(entries) // 12)]:
            k = e.find(' ')
            if k <= 0:
                continue
            for text in (e[k:], ' '.join(e[k:].split())):
                mine = bench.parse(text)
                for n in list(mine.cells.values()):
                    if n.kind not in ('input', 'output') and len(n.ins) >= 1 and n.ins[0] is not None:
                        n.ins[0].remove()
                Node(mine, 'scribble', 'inv')
    # ... and it looked pins up by position or by names the cells do not have, directly and through netlists with positional connections
    # (whether such a request is answered or refused is not judged here; the library cells afterwards are)
    import kyupy.techlib as tl
    from kyupy import verilog
    for lib in sorted(lib_sources()):
        tlib = getattr(tl, lib)
        for j, name in enumerate(sorted(tlib.cells)):
            real = [p_ for p_ in list(tlib.cells[name][1]) if isinstance(p_, str)]
            variants = [v for p_ in real for v in (p_.lower(), p_.upper(), p_.swapcase(), p_ + ' ', ' ' + p_, p_ + '_', p_[:-1]) if v not in real]
            for pin in [0, 1, 2, 'NOSUCHPIN', ''] + (variants if j % 3 == 0 else variants[:2]):      # names that resemble a pin's (other case, padded, cut)
                for fn in (tlib.pin_index, tlib.pin_is_output):
                    try:
                        fn(name, pin)
                    except Exception:  # noqa
                        pass
            npins = len(tlib.cells[name][1])
            if j % 25 == 0 and npins >= 2:
                nets = [f'w{i}' for i in range(npins)]
                text = f'module t ({", ".join(nets)}); input {", ".join(nets[:-1])}; output {nets[-1]}; ' + \
                       f'{name} u0 ({", ".join(nets)}); endmodule'
                try:
                    verilog.parse(text, tlib=tlib)
                except Exception:  # noqa
                    pass


def prop(case):
    import kyupy.techlib as tl
    from kyupy.logic_sim import LogicSim
    lib, name = case['lib'], case['cell']
    global _WORKED
    if sum(map(ord, name)) % 8 == 0 and not _WORKED:       # once per worker process, before the first such cell
        _WORKED = True
        other_work()
    tlib = getattr(tl, lib)
    exp = expected_cells(lib)
    if name not in tlib.cells:
        raise Violation(f'{lib}: name {name} of the library source does not expand to a definition')
    impl, pin_dict = tlib.cells[name]
    from_source = name in exp
    if from_source:
        ins, outs, body = exp[name]
    else:       # no declaration text found for this entry (the module may assemble its libraries differently): the implementation's own port order is the declaration
        ins = [n.name for n in impl.io_nodes if len(n.ins) == 0]
        outs = [n.name for n in impl.io_nodes if len(n.ins) > 0]
    # (a) pin table
    want = {p: (i, False) for i, p in enumerate(ins)}
    want.update({p: (i, True) for i, p in enumerate(outs)})
    if len(want) != len(ins) + len(outs):
        raise Violation(f'{lib}.{name}: a pin is listed twice in {ins} {outs}')
    if dict(pin_dict) != want:
        raise Violation(f'{lib}.{name}: pin table {dict(pin_dict)} != declaration order {want}')
    for p, (idx, is_out) in want.items():
        if tlib.pin_index(name, p) != idx or bool(tlib.pin_is_output(name, p)) != is_out:
            raise Violation(f'{lib}.{name}: pin_index/pin_is_output({p}) inconsistent')
    impl_in = [n for n in impl.io_nodes if len(n.ins) == 0]
    impl_out = [n for n in impl.io_nodes if len(n.ins) > 0]
    if [n.name for n in impl_in] != ins or [n.name for n in impl_out] != outs:
        raise Violation(f'{lib}.{name}: implementation ports {[n.name for n in impl_in]} -> {[n.name for n in impl_out]} '
                        f'!= declared {ins} -> {outs}')
    labels = [lib] + ([] if from_source else ['declaration_taken_from_the_implementation'])
    sp = datasheet.spec(name, (ins, outs))
    if sp is None:
        labels.append('no_datasheet_family')
        return Obs(False, labels)
    fam, fns = sp
    if fns is None:
        raise Violation(f'{lib}.{name}: pins {ins}->{outs} do not fit the family its name denotes ({fam})')
    labels.append('fam_' + ''.join(ch for ch in fam if not ch.isdigit()))
    # (b) function: all input combinations through the implementation circuit
    n = len(ins)
    combos = list(itertools.product([0, 1], repeat=n))
    sims = len(combos)
    sim = LogicSim(impl, sims, m=2)
    s_nodes = impl.s_nodes
    if len(s_nodes) != len(impl.io_nodes):
        raise Violation(f'{lib}.{name}: combinational family but implementation has state elements')
    pos = {nd.name: i for i, nd in enumerate(s_nodes)}
    stim = np.zeros((len(s_nodes), sims), dtype=np.uint8)
    for j, p in enumerate(ins):
        stim[pos[p]] = [3 * c[j] for c in combos]
    sim.s[0] = pack_bp(stim)
    sim.s_to_c(); sim.c_prop(); sim.c_to_s()
    res = unpack_bp(sim.s[1], sims)
    for o in outs:
        if o not in fns:
            raise Violation(f'{lib}.{name}: output pin {o} has no role in family {fam}')
        for ci, c in enumerate(combos):
            e = fns[o](dict(zip(ins, c)))
            g = int(res[pos[o]][ci])
            if g != 3 * e:
                raise Violation(f'{lib}.{name}: pin {o} with inputs {dict(zip(ins, c))} = code {g}, datasheet ({fam}) says {e}')
    return Obs(n >= 2, labels, checks=len(outs) * sims)


def enum_isolation(tier):
    import kyupy.techlib as tl
    for a in LIBS:
        for b in LIBS:
            if a != b:
                shared = sorted(set(getattr(tl, a).cells) & set(getattr(tl, b).cells))
                for name in shared[::max(1, len(shared) // (24 if tier == 'thorough' else 8))]:
                    yield dict(edited=a, lib=b, cell=name)


def prop_isolation(case):
    """a caller edits the implementation circuit of a cell of one library in place (a modelled defect: the kind of its first gate is changed);
    the cell of the same name in another library is judged afterwards and must be what it was. The edit is undone before returning."""
    import kyupy.techlib as tl
    impl = getattr(tl, case['edited']).cells[case['cell']][0]
    ports = {id(n) for n in impl.io_nodes}
    gates = [n for n in impl.nodes if n.kind != '__fork__' and id(n) not in ports]
    if not gates:
        return Obs(False, ['no_gate_to_edit'])
    saved = [(n, n.kind) for n in gates]
    try:
        for n in gates:
            n.kind = 'INV1' if n.kind.upper().startswith('BUF') else 'BUF1'
        try:
            obs = prop(dict(lib=case['lib'], cell=case['cell']))
        except Violation as v:
            raise Violation(f'after an in-place edit of {case["edited"]}.{case["cell"]} (a different library): {v}') from None
    finally:
        for n, k in saved:
            n.kind = k
    return Obs(True, [f'{case["edited"]}_then_{case["lib"]}'], checks=obs.checks)


def enum_lookup(tier):
    for a in LIBS:
        for b in LIBS:
            if a != b:
                yield dict(first=a, then=b)


def prop_lookup(case):
    """the look-up methods the netlist parsers use answer per library, whatever was asked of another library before (135 cell names exist in
    two libraries, some with other pins or another pin order)"""
    import kyupy.techlib as tl
    shared_diff = 0
    n = 0
    for lib in (case['first'], case['then'], case['first']):
        tlib = getattr(tl, lib)
        for name, (ins, outs, _) in sorted(expected_cells(lib).items()):
            if name not in tlib.cells:
                continue            # reported by part cells
            for is_out, pins in ((False, ins), (True, outs)):
                for idx, p in enumerate(pins):
                    n += 1
                    gi, go = tlib.pin_index(name, p), bool(tlib.pin_is_output(name, p))
                    if gi != idx or go != is_out:
                        raise Violation(f'{lib}.pin_index/pin_is_output({name!r}, {p!r}) = ({gi}, {go}) after look-ups in {case["first"]}, '
                                        f'{case["then"]}; declaration says ({idx}, {is_out})')
    a, b = expected_cells(case['first']), expected_cells(case['then'])
    shared = set(a) & set(b)
    shared_diff = sum(1 for x in shared if a[x][:2] != b[x][:2])
    return Obs(shared_diff > 0, [f'shared_names_{"some" if shared else "none"}', f'shared_with_other_pins_{"some" if shared_diff else "none"}'], checks=n)


PARTS = [Part('cells', prop, enumerate=enum_cells, quick=(8, 0), thorough=(16, 0)),
         Part('lookup', prop_lookup, enumerate=enum_lookup, quick=(4, 0), thorough=(4, 0)),
         Part('isolation', prop_isolation, enumerate=enum_isolation, quick=(2, 0), thorough=(4, 0))]
