"""C07 - the published level partition is a valid parallel schedule."""
import numpy as np
from hypothesis import strategies as st

from vk.core import Violation, Obs, Part
from vk import refmodel as rm, strategies as S, wave as W
from vk.build import build, pack_bp
from vk.props.c03 import XOR_RICH

ID = 'C07'
RULE = ('Hypothesis-generated netlists x {c_reuse} x {strip_forks} x capacities x simulator in {WaveSim, WaveSimCuda, LogicSim m=2/4/8}. Schedules: the rows '
        'of the published ops array are permuted inside every level (generated sort keys, plus the reversed order), and for WaveSimCuda the '
        '(simulation, operation) threads of every launch are visited in a generated order by an own launcher that replaces the mock grid loop. '
        'Oracle: s and the whole signal memory (scratch slots excluded) are bit-identical to list-order execution. Structural predicate on every '
        'generated simulator: every operand of a level-L op is the zero slot, an interface input or written in a level < L (stems found by walking '
        'the circuit), no two ops of a level write overlapping regions, no region written in level L overlaps a region read in level L. '
        'non-trivial: some level has >= 3 ops and memory was really reused (c_len smaller than without reuse); distinct by SHA-1 of the case. Some connected gates are ports as well (test points appended to io_nodes). In a third of the cases a simulator was built on the circuit while one operand line was still wired to a primary input; the line is then re-wired in place (node and line counts unchanged).')
ASSUMPTIONS = ['each mock-GPU thread runs atomically (finer interleavings are represented by the structural predicate: disjoint write sets, reads '
               'only from earlier levels)', 'no numba/CUDA: kernels are the Python source']


@st.composite
def cases(draw, tier):
    big = tier == 'thorough'
    large = draw(st.integers(0, 19)) == 0              # occasionally > 100 gates (hundreds of references to one memory slot)
    nl = draw(S.netlists(max_g=(300 if big else 150) if large else (24 if big else 12), min_g=100 if large else 0, max_pi=5, max_st=2,
                         need_d=True, clock_pins=True, families=XOR_RICH if draw(st.booleans()) else None))
    kind = draw(st.sampled_from(['wave', 'wave', 'cuda', 'logic2', 'logic4', 'logic8']))
    lanes = draw(st.integers(1, 3))
    shape = draw(st.integers(0, 9))
    if shape == 0:
        nl = S.widen(nl, draw(st.integers(15, 22)), draw(st.integers(0, 999)))     # a level wider than one mock-GPU block (16 ops)
    elif shape == 1 and kind == 'cuda':
        lanes = 33                                                                    # more lanes than one block (32)
    n = nl['pi'] + len(nl['st'])
    waves = draw(W.input_waves(n, lanes))
    codes = draw(S.codes(n, lanes, list(range(8))))
    return dict(nl=nl, kind=kind, lanes=lanes, waves=waves, codes=codes, dpool=draw(W.DELAY_POOL), caps=draw(W.CAPS),
                c_reuse=draw(st.sampled_from([True, True, False])), strip_forks=draw(st.booleans()),
                keys=draw(st.lists(st.integers(0, 1000), min_size=16, max_size=16)),
                tkeys=draw(st.lists(st.integers(0, 1000), min_size=32, max_size=32)), nperm=draw(st.integers(1, 3)),
                tps=draw(st.one_of(st.just([]), st.just([]), st.lists(st.integers(0, 400), min_size=1, max_size=3))),       # gates that are ports as well (test points)
                warm=draw(st.one_of(st.just(0), st.just(0), st.integers(1, 1000))))      # a simulator was built on the circuit while one line was still wired elsewhere


class OrderedLauncher:
    """Stands in for kyupy's mock grid launcher: same kernel, same live (x, y) coordinates, generated order."""
    def __init__(self, func, cuda, tkeys):
        self.func, self.cuda, self.tkeys, self.level = func, cuda, tkeys, 0

    def __call__(self, *a, **k):
        return self.func(*a, **k)

    def __getitem__(self, item):
        grid_dim, block_dim = item

        def inner(*args):
            nx, ny = grid_dim[0] * block_dim[0], grid_dim[1] * block_dim[1]
            op_start, op_stop, sim_start, sim_stop = int(args[1]), int(args[2]), int(args[7]), int(args[8])
            live = [(x, y) for x in range(min(nx, sim_stop - sim_start)) for y in range(min(ny, op_stop - op_start))]
            dead = [(nx - 1, ny - 1), (min(nx - 1, sim_stop - sim_start), 0), (0, min(ny - 1, op_stop - op_start))]
            coords = live + [d for d in dead if d not in live]
            tk = self.tkeys
            order = sorted(range(len(coords)), key=lambda i: (tk[(i * 5 + 3 * self.level) % len(tk)], i))
            self.level += 1
            for i in order:
                self.cuda.x, self.cuda.y = coords[i]
                self.func(*args)
        return inner


def make_sim(case, b):
    from kyupy.wave_sim import WaveSim, WaveSimCuda
    from kyupy.logic_sim import LogicSim
    nl = case['nl']
    kind = case['kind']
    nlines = len(b.c.lines)
    if kind in ('wave', 'cuda'):
        delays = W.delays_for(nlines, case['dpool'])
        klass = WaveSim if kind == 'wave' else WaveSimCuda
        s = klass(b.c, delays, sims=case['lanes'], c_caps=W.caps_for(nlines, case['caps']), c_reuse=case['c_reuse'],
                  strip_forks=case['strip_forks'])
    else:
        s = LogicSim(b.c, case['lanes'], m=int(kind[5:]), c_reuse=case['c_reuse'], strip_forks=case['strip_forks'])
    return s


def run_sim(case, b, s):
    nl = case['nl']
    if case['kind'] in ('wave', 'cuda'):
        W.apply_inputs(s, b, nl, case['waves'])
        s.c_prop(); s.c_to_s()
    else:
        m = int(case['kind'][5:])
        rows = [b.s_pos(n) for n in b.pi] + [b.s_pos(n) for n in b.st]
        mv = np.full((len(b.c.s_nodes), case['lanes']), 2, dtype=np.uint8)
        for k, r in enumerate(rows):
            mv[r] = [(3 * (x & 1)) if m == 2 else (x & 3) if m == 4 else x for x in case['codes'][k]]
        s.s[0] = pack_bp(mv)
        s.s_to_c(); s.c_prop(); s.c_to_s()
    return np.array(s.s), np.array(s.c)


def structural(s, b, case):
    ops = np.array(s.ops); c_locs = np.array(s.c_locs); c_caps = np.array(s.c_caps)
    starts = list(np.array(s.level_starts)); stops = list(np.array(s.level_stops))
    if not len(ops):
        return 0
    if starts[0] != 0 or stops[-1] != len(ops) or any(starts[i + 1] != stops[i] for i in range(len(starts) - 1)) \
            or any(stops[i] <= starts[i] for i in range(len(starts))):
        raise Violation(f'levels do not partition the op list: starts {starts} stops {stops} ({len(ops)} ops)')
    nlines = len(b.c.lines)
    level_of_line = {}
    for L, (a, z) in enumerate(zip(starts, stops)):
        for op in ops[a:z]:
            o = int(op[1])
            if o < nlines:
                if o in level_of_line:
                    raise Violation(f'line {o} is written by two ops')
                level_of_line[o] = L
    pi_nodes = {id(n) for n in b.pi} | {id(n) for n in b.st}

    def stem(idx):
        """line whose evaluation produces the value carried by line idx (walks over stripped forks in the circuit graph)"""
        l = b.c.lines[idx]
        while idx not in level_of_line:
            drv = l.driver
            if drv.kind != '__fork__' or id(drv) in pi_nodes or not drv.ins or drv.ins[0] is None:
                return None
            l = drv.ins[0]; idx = l.index
        return idx

    scratch = {int(s.tmp_idx), int(s.tmp2_idx)}
    maxops = 0
    for L, (a, z) in enumerate(zip(starts, stops)):
        maxops = max(maxops, z - a)
        writes = []
        reads = []
        for op in ops[a:z]:
            o = int(op[1])
            if o not in scratch:
                writes.append((int(c_locs[o]), int(c_locs[o] + c_caps[o]), o))
            for idx in (int(x) for x in op[2:6]):
                if idx == s.zero_idx:
                    continue
                if idx >= s.ppi_offset:
                    if idx >= s.ppo_offset or c_locs[idx] < 0:
                        raise Violation(f'level {L}: operand {idx} is not an interface input')
                    reads.append((int(c_locs[idx]), int(c_locs[idx] + c_caps[idx]), idx))
                    continue
                if idx in scratch:
                    raise Violation(f'level {L}: op reads a scratch slot')
                st_ = stem(idx)
                if st_ is None:
                    raise Violation(f'level {L}: operand line {idx} is never produced by any op')
                if level_of_line[st_] >= L:
                    raise Violation(f'level {L}: operand line {idx} (produced as line {st_}) is written in level {level_of_line[st_]}')
                if c_locs[idx] != c_locs[st_] or c_caps[idx] != c_caps[st_]:
                    raise Violation(f'operand line {idx} is not aliased to its stem {st_}')
                reads.append((int(c_locs[idx]), int(c_locs[idx] + c_caps[idx]), idx))
        writes.sort()
        for i in range(len(writes) - 1):
            if writes[i][1] > writes[i + 1][0]:
                raise Violation(f'level {L}: ops write overlapping regions: lines {writes[i][2]} {writes[i][:2]} and {writes[i + 1][2]} {writes[i + 1][:2]}')
        for w in writes:
            for r in reads:
                if w[0] < r[1] and r[0] < w[1]:
                    raise Violation(f'level {L}: region {w[:2]} written for line {w[2]} overlaps region {r[:2]} read as operand {r[2]} in the same level')
    return maxops


def prop(case):
    import kyupy.wave_sim as ws
    nl = case['nl']
    b = build(nl)
    # "A subset of nodes can be designated as ports by adding them to io_nodes": some connected gates become ports too (test points: the input is
    # observed, the output is controlled); their rows of s keep the default stimulus
    tps = []
    for t in case.get('tps', []):
        cand = [n for n in b.g if n.ins and all(l is not None for l in n.ins) and n.outs and n.outs[0] is not None and not any(n is x for x in tps)]
        if cand:
            tps.append(cand[t % len(cand)])
            b.c.io_nodes.append(tps[-1])
    warmed = False
    if case.get('warm'):
        # history: the circuit was simulated once while one operand line still came from a primary input; then that line was re-wired in place to
        # its final driver (node and line counts unchanged). The schedule of a simulator built now must be that of the circuit as it is now.
        from kyupy.circuit import Line
        srcs = [n for n in b.c.forks.values() if n.ins and n.ins[0] is not None and any(n.ins[0].driver is p for p in b.pi)] + \
               [p for p in b.pi if p.kind == '__fork__']
        cand = [l for l in b.c.lines if any(l.reader is g for g in b.g) and not any(l.driver is x for x in srcs) and not any(l.driver is p for p in b.pi)]
        if srcs and cand:
            l = cand[case['warm'] % len(cand)]
            src = srcs[case['warm'] % len(srcs)]
            drv, dpin, rd, rpin = l.driver, l.driver_pin, l.reader, l.reader_pin
            l.remove()
            tmp = Line(b.c, src, (rd, rpin))
            make_sim(case, b)
            tmp.remove()
            Line(b.c, drv if drv.kind == '__fork__' else (drv, dpin), (rd, rpin))
            warmed = True
    ref = make_sim(case, b)
    maxops = structural(ref, b, case) if not __import__('os').environ.get('VERIF_C07_NOSTRUCT') else 3
    s0, c0 = run_sim(case, b, ref)
    scratch_rows = []
    for idx in (ref.tmp_idx, ref.tmp2_idx):
        loc = int(np.array(ref.c_locs)[idx]); cap = int(np.array(ref.c_caps)[idx])
        scratch_rows += list(range(loc, loc + cap))
    keep = np.ones(c0.shape[0], dtype=bool)
    keep[scratch_rows] = False
    starts = list(np.array(ref.level_starts)); stops = list(np.array(ref.level_stops))
    nperms = 0
    for p in range(case['nperm'] + 1):
        sim = make_sim(case, b)
        ops = np.array(sim.ops)
        for L, (a, z) in enumerate(zip(starts, stops)):
            if p == 0:
                order = list(range(z - a))[::-1]          # reversed
            else:
                keys = case['keys']
                order = sorted(range(z - a), key=lambda i: (keys[(i * (p + 1) + L) % len(keys)], i))
            ops[a:z] = ops[a:z][order]
        sim.ops = ops if case['kind'] != 'cuda' else ws.cuda.to_device(ops)
        saved = ws.wave_eval_gpu
        try:
            if case['kind'] == 'cuda':
                ws.wave_eval_gpu = OrderedLauncher(saved.func, ws.cuda, [k + p for k in case['tkeys']])
            s1, c1 = run_sim(case, b, sim)
        finally:
            ws.wave_eval_gpu = saved
        nperms += 1
        if not np.array_equal(s0, s1, equal_nan=True):
            bad = np.argwhere(s0 != s1)[0]
            raise Violation(f'{case["kind"]}: permuting ops inside levels (permutation {p}) changes s at {bad.tolist()}: {s0[tuple(bad)]} vs {s1[tuple(bad)]}')
        if not np.array_equal(c0[keep], c1[keep]):
            bad = np.argwhere(c0[keep] != c1[keep])[0]
            raise Violation(f'{case["kind"]}: permuting ops inside levels (permutation {p}) changes signal memory (row {bad[0]} of non-scratch rows)')
    reused = False
    if case['c_reuse']:
        c2 = dict(case); c2['c_reuse'] = False
        reused = ref.c_len < make_sim(c2, b).c_len
    labels = [case['kind']]
    if maxops >= 3: labels.append('level_with>=3_ops')
    if reused: labels.append('memory_really_reused')
    if case['strip_forks']: labels.append('strip_forks')
    if len(nl['g']) >= 100: labels.append('>=100_gates')
    if tps: labels.append('gate_as_port')
    if warmed: labels.append('simulated_before_an_in_place_rewire')
    return Obs(maxops >= 3 and reused, labels, checks=nperms + 1)


PARTS = [Part('schedule', prop, strategy=cases, quick=(8, 300), thorough=(16, 5000))]
