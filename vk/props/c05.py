"""C05 - 8-valued logic simulation conservatively predicts timing simulation."""
import numpy as np
from hypothesis import strategies as st

from vk.core import Violation, Obs, Part
from vk import refmodel as rm, strategies as S, wave as W
from vk.build import build, pack_bp, unpack_bp

ID = 'C05'
RULE = ('Hypothesis-generated netlists x arbitrary non-negative float delays (not only dyadic; 4 independent entries per line) x stimuli over '
        '{0,1,R,F} per input and lane with an arbitrary transition time of either sign x {c_reuse, strip_forks} independently for both simulators x capacities '
        '4..64 (overflow only removes transitions, so both clauses still apply) x WaveSim/WaveSimCuda. Differential oracle: the same stimulus through LogicSim(m=8) and the timing simulator; at every output and '
        'state element (s[3], s[6]) = (initial, final) component of the 8-valued code, and wherever the code is plain 0/1: s[4]=TMAX, s[5]=TMIN and '
        'the waveform has no finite entry. Random internal signals are tapped by extra outputs. non-trivial: some output is a hazard-free constant '
        'although an input in its cone switches (masking) and some output has activity; distinct by SHA-1 of the case.')
ASSUMPTIONS = ['two implementations inside kyupy are compared with each other (differential); their common op list is checked against an independent '
               'model by C01/C02/C03']


@st.composite
def cases(draw, tier):
    big = tier == 'thorough'
    nl = draw(S.netlists(max_g=24 if big else 10, max_pi=4, max_st=2, need_d=True, clock_pins=False, po_taps=5))
    lanes = draw(st.one_of(st.integers(1, 6 if big else 3), st.integers(1, 6 if big else 3), st.integers(1, 6 if big else 3), st.sampled_from([33, 49, 65, 70])))      # sometimes more lanes than a mock-GPU block
    n = nl['pi'] + len(nl['st'])
    stim = draw(st.lists(st.lists(st.tuples(st.sampled_from([0, 3, 5, 6]), st.one_of(st.integers(0, 4000), st.integers(-2000, 4000))), min_size=lanes, max_size=lanes),
                         min_size=n, max_size=n))
    dpool = draw(st.lists(st.one_of(st.sampled_from([0, 0, 1]), st.integers(0, 3000)), min_size=8, max_size=24))
    return dict(nl=nl, lanes=lanes, stim=[[list(x) for x in row] for row in stim], dpool=dpool,
                caps=draw(st.one_of(st.sampled_from([4, 8, 16, 16, 32, 64]), W.CAPS)),          # uniform or per line
                w_reuse=draw(st.booleans()), w_strip=draw(st.booleans()), l_reuse=draw(st.booleans()), l_strip=draw(st.booleans()),
                cuda=draw(st.sampled_from([False, False, True])), far=draw(st.sampled_from([0, 0, 1, 2])))


def prop(case):
    from kyupy.wave_sim import WaveSim, WaveSimCuda
    from kyupy.logic_sim import LogicSim
    nl, lanes = case['nl'], case['lanes']
    b = build(nl)
    c = b.c
    nlines = len(c.lines)
    # arbitrary float delays: pool value / 137 (not representable exactly)
    delays = np.zeros((1, max(1, nlines), 2, 2), dtype=np.float32)
    p = case['dpool']
    for l in range(nlines):
        for j in range(4):
            delays[0, l, j >> 1, j & 1] = p[(4 * l + j) % len(p)] / 137.0
    klass = WaveSimCuda if case['cuda'] else WaveSim
    ws = klass(c, delays, sims=lanes, c_caps=W.caps_for(nlines, case['caps']), c_reuse=case['w_reuse'], strip_forks=case['w_strip'])
    ls = LogicSim(c, lanes, m=8, c_reuse=case['l_reuse'], strip_forks=case['l_strip'])
    rows = [b.s_pos(n) for n in b.pi] + [b.s_pos(n) for n in b.st]
    s_len = len(c.s_nodes)
    mv = np.full((s_len, lanes), 2, dtype=np.uint8)
    for k, row in enumerate(rows):
        for lane in range(lanes):
            code, t = case['stim'][k][lane]
            mv[row, lane] = code
            ws.s[0, row, lane] = (code >> 1) & 1
            ws.s[1, row, lane] = t / 61.0
            ws.s[2, row, lane] = code & 1
    ws.s_to_c(); ws.c_prop()
    if case.get('far'):             # capture options do not change initial / final value and arrival times: a far capture time with sd > 0
        ws.c_to_s(time=-10000.0 if case['far'] == 1 else 100000.0, sd=0.5)
    else:
        ws.c_to_s()
    ls.s[0] = pack_bp(mv)
    ls.s_to_c(); ls.c_prop(); ls.c_to_s()
    res = unpack_bp(ls.s[1], lanes)
    outs = [(b.s_pos(n), f'o{k} <- {nl["po"][k]}', nl['po'][k]) for k, n in enumerate(b.po)]
    outs += [(b.s_pos(n), f's{k} <- {nl["st"][k]["d"]}', nl['st'][k]['d']) for k, n in enumerate(b.st) if nl['st'][k]['d'] is not None]
    masked = False
    active = False
    # which signals have a switching input in their cone (for the non-trivial rule)
    for lane in range(lanes):
        sw = {}
        npi = nl['pi']
        for k in range(npi): sw[f'i{k}'] = case['stim'][k][lane][0] in (5, 6)
        for k in range(len(nl['st'])):
            sw[f's{k}'] = sw[f'n{k}'] = case['stim'][npi + k][lane][0] in (5, 6)
        for k, g in enumerate(nl['g']):
            sw[f'g{k}'] = any(sw[x] for x in g['i'] if x is not None)
        for row, what, src in outs:
            code = int(res[row, lane])
            if code in (1, 2):
                raise Violation(f'{what} lane {lane}: 8-valued result unknown ({code}) for a stimulus over 0/1/R/F')
            wi, wf = float(ws.s[3, row, lane]), float(ws.s[6, row, lane])
            if wi != ((code >> 1) & 1) or wf != (code & 1):
                raise Violation(f'{what} lane {lane}: timing simulation (initial, final) = ({wi}, {wf}), 8-valued logic simulation says code {code}')
            if code in (0, 3):
                eat, lst = float(ws.s[4, row, lane]), float(ws.s[5, row, lane])
                if eat < W.TMAX or lst > W.TMIN:
                    raise Violation(f'{what} lane {lane}: logic simulation reports hazard-free constant {code} but the waveform has transitions '
                                    f'(EAT {eat}, LST {lst})')
                loc = int(ws.c_locs[ws.ppo_offset + row]); cap = int(ws.c_caps[ws.ppo_offset + row])
                if not case['w_reuse']:
                    w = W.parse_wave(np.array(ws.c[loc:loc + cap, lane]))
                    if w['times']:
                        raise Violation(f'{what} lane {lane}: hazard-free constant {code} but waveform has entries {w["times"]}')
                if sw[src]:
                    masked = True
            else:
                active = True
    labels = []
    if masked: labels.append('masked_constant')
    if active: labels.append('active_output')
    if case['cuda']: labels.append('cuda_path')
    if case['w_reuse']: labels.append('w_reuse')
    if case['w_strip']: labels.append('w_strip')
    return Obs(masked and active, labels, checks=len(outs) * lanes)


PARTS = [Part('diff', prop, strategy=cases, quick=(8, 500), thorough=(16, 10000))]
