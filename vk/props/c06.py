"""C06 - results do not depend on performance options, lane position or code path."""
import numpy as np
from hypothesis import strategies as st

from vk.core import Violation, Obs, Part
from vk import refmodel as rm, strategies as S, wave as W
from vk.build import build, pack_bp, unpack_bp
from vk.props.c03 import XOR_RICH

ID = 'C06'
RULE = ('Hypothesis-generated netlists (fork chains, both port styles, open pins/outputs, state elements) x stimuli x options. Part wave: '
        'WaveSim plain configuration vs (1) c_reuse, (2) strip_forks with zero delay on every line read by a fork and uniform capacity, '
        '(3) WaveSimCuda incl. abuf, (3b) a simulator object already used with other stimuli vs a fresh one, (4) more allocated lanes with arbitrary data in the extra lanes, (5) lane permutation, (6) c_prop(sims=k), '
        '(3c) both code paths capture the same from a waveform written straight into the output regions (timestamps in any order), (7) delay dataset selection modes 0 (global) and 1 (per lane), uniform and mixed lane by lane, vs simulating with that dataset alone (mode 2, pseudo-random picking, is not part of the statement and not exercised), (8) s_ppo_to_ppi of '
        'both classes; compared: s[3..8], s[10] at all outputs / state elements, exact equality. Part logic: LogicSim m=2/4/8 plain vs c_reuse, '
        'strip_forks, extra lanes, lane permutation on s[1]. non-trivial: circuit has a multi-output fork and >= 3 levels and the compared '
        'configurations really differ (c_len smaller with reuse / fewer ops when stripped); distinct by SHA-1 of the case. Relation 3e: on the kernel class a capture with sd = 2 at a grid time (transitions inside the undecided band, value drawn from seed, lane and port) is the same with and without c_reuse / strip_forks. Floating nets (undriven forks on otherwise unconnected operand pins) occur in 2 cases of 5.')
ASSUMPTIONS = ['GPU path = kernels run by the pure-Python MockCuda launcher (no CUDA device, no numba)', 'sd = 0: no sampled capture values']

CMP_ROWS = (3, 4, 5, 6, 7, 8, 10)


@st.composite
def wave_cases(draw, tier):
    big = tier == 'thorough'
    nl = draw(S.netlists(max_g=16 if big else 8, max_pi=4, max_st=2, families=XOR_RICH, need_d=True, clock_pins=True))
    lanes = draw(st.integers(1, 4 if big else 3))
    shape = draw(st.integers(0, 11))
    if shape == 0:
        lanes = draw(st.sampled_from([31, 32, 33, 35, 49, 64, 65, 70]))        # more lanes than one / two mock-GPU blocks are wide (32)
    elif shape == 1:
        nl = S.widen(nl, draw(st.integers(15, 22)), draw(st.integers(0, 999)))   # a level wider than one block is high (16), > 16 ports
    n = nl['pi'] + len(nl['st'])
    waves = draw(W.input_waves(n, lanes, single_only=draw(st.booleans()) or lanes > 8))
    extra = draw(st.integers(1, 3))
    xwaves = draw(W.input_waves(n, extra, single_only=True))
    pre = draw(W.input_waves(n, lanes)) if lanes <= 8 else None
    nds = draw(st.integers(1, 3))
    return dict(nl=nl, lanes=lanes, waves=waves, pre=pre, extra=extra, xwaves=xwaves, dpool=draw(W.DELAY_POOL), cap=draw(st.sampled_from([4, 8, 16, 32])),
                nds=nds, dsel=draw(st.lists(st.integers(0, nds - 1), min_size=lanes, max_size=lanes)), gsel=draw(st.integers(0, nds - 1)),
                perm=draw(st.permutations(list(range(lanes)))), k=draw(st.integers(1, lanes)),
                ctime=draw(st.one_of(st.none(), st.integers(0, 600))), seed=draw(st.integers(0, 5)),
                actrl=draw(st.one_of(st.none(), st.lists(st.tuples(st.sampled_from([-1, 0, 1]), st.integers(-2, 2), st.integers(-2, 2)),
                                                         min_size=3, max_size=8))),
                pptime=draw(st.integers(0, 100)))


def prop_wave(case):
    from kyupy.wave_sim import WaveSim, WaveSimCuda
    nl, lanes = case['nl'], case['lanes']
    b = build(nl)
    c = b.c
    nlines = len(c.lines)
    delays = W.delays_for(nlines, case['dpool'], datasets=case['nds'])
    for l in c.lines:                       # documented precondition of strip_forks equivalence
        if l.reader.kind == '__fork__':
            delays[:, l.index] = 0
    rows = [b.s_pos(n) for n in b.po] + [b.s_pos(n) for k, n in enumerate(b.st) if nl['st'][k]['d'] is not None]
    T = None if case['ctime'] is None else case['ctime'] / W.GRID
    actrl = None
    if case['actrl']:
        actrl = np.array([list(case['actrl'][l % len(case['actrl'])]) for l in range(max(1, nlines))], dtype=np.int32)

    opts_sd = [1 / 64]

    def sim(klass=WaveSim, waves=None, sims=None, dl=None, ksims=None, seed=1, mode=None, per_lane=None, act=None, pre=None, owave=None, near=None, **opts):
        waves = waves or case['waves']
        sims = sims or len(waves[0])
        s = klass(c, delays if dl is None else dl, sims=sims, c_caps=opts.pop('caps', case['cap']), a_ctrl=act, **opts)
        if mode is not None:
            s.simctl_int[1] = mode
        if per_lane is not None:
            s.simctl_int[0] = per_lane
        if pre is not None:            # earlier use of the same simulator object
            W.apply_inputs(s, b, nl, pre)
            s.c_prop(seed=seed); s.c_to_s()
        W.apply_inputs(s, b, nl, waves)
        s.c_prop(sims=ksims, seed=seed)
        if owave is not None:          # a waveform written straight into the region of every captured line (timestamps in any order)
            for row in rows:
                loc = int(s.c_locs[s.ppo_offset + row]); cap = int(s.c_caps[s.ppo_offset + row])
                ent = [np.float32(t / W.GRID) for t in owave[0]][:cap - 1] + [W.TMAX_OVL if owave[1] else W.TMAX]
                for lane in range(sims):
                    if loc < 0 or loc + cap > s.c.shape[0]:
                        raise Violation(f'the region [{loc}, {loc + cap}) that c_locs / c_caps report for a captured line lies outside the signal memory ({s.c.shape[0]} rows)')
                    s.c[loc:loc + len(ent), lane] = ent
        if near is not None: s.c_to_s(time=near, sd=opts_sd[0])
        elif T is None: s.c_to_s()
        else: s.c_to_s(time=T)
        return s

    def res(s, lanesel=None):
        a = np.array(s.s)[list(CMP_ROWS)][:, rows]
        return a if lanesel is None else a[:, :, lanesel]

    def same(a, b_, what):
        if a.shape != b_.shape or not np.array_equal(a, b_):
            bad = np.argwhere(a != b_)[0] if a.shape == b_.shape else None
            raise Violation(f'{what}: results differ' + (f' at s[{CMP_ROWS[bad[0]]}] output row {rows[bad[1]]} lane {bad[2]}: '
                            f'{a[tuple(bad)]} vs {b_[tuple(bad)]}' if bad is not None else f' in shape {a.shape} vs {b_.shape}'))

    # with several datasets the plain reference uses dataset gsel for all lanes (mode 0)
    g = case['gsel']
    d_alone = delays[g:g + 1]
    base = sim(dl=d_alone, act=actrl)
    r0 = res(base)
    labels = []
    # 1 c_reuse
    s1 = sim(dl=d_alone, c_reuse=True, act=actrl)
    same(r0, res(s1), 'c_reuse on vs off')
    if actrl is not None and not np.array_equal(np.array(s1.abuf), np.array(base.abuf)):
        raise Violation(f'c_reuse on vs off: abuf {np.array(s1.abuf).tolist()} != {np.array(base.abuf).tolist()}')
    reused = s1.c_len < base.c_len
    # 2 strip_forks
    # known finding F28: with strongly polarity-dependent delays the kernel can emit a waveform whose timestamps are not increasing; a fork
    # (evaluated as a buffer) then filters that pulse even with zero delay, a stripped fork cannot. Cases in which the plain run holds such a
    # waveform on a line read by a fork are excluded from the strip_forks comparisons (counted), unless the case asks for them ('strict_strip').
    f28 = False
    for l in c.lines:
        if l.reader.kind == '__fork__':
            for lane in range(lanes):
                ts = W.line_wave(base, l.index, lane)['times']
                if any(ts[i] >= ts[i + 1] for i in range(len(ts) - 1)):
                    f28 = True
    sf = True
    if f28 and not case.get('strict_strip'):
        labels.append('excluded_known_F28')
        sf = False
    stripped = False
    if sf:
        s2 = sim(dl=d_alone, strip_forks=True)
        same(r0, res(s2), 'strip_forks on vs off (zero delay on fork inputs)')
        stripped = len(s2.ops) < len(base.ops)
    s2b = sim(dl=d_alone, strip_forks=sf, c_reuse=True)
    same(r0, res(s2b), 'strip_forks+c_reuse vs plain' if sf else 'c_reuse vs plain')
    # 2c per-line capacities: a stripped branch takes over the capacity of its stem, so arrival times and overflow marks may differ between
    # strip_forks on and off - but never the initial and final values (overflow removes transitions in pairs)
    capsv = W.caps_for(nlines, [[4, 16, 8, 4, 32, 4, 12], [16, 4, 4, 8], [4, 4, 64], [8, 4]][case['seed'] % 4])
    keep = [i for i, k in enumerate(CMP_ROWS) if k in (3, 6)]
    same(res(sim(dl=d_alone, caps=capsv))[keep], res(sim(dl=d_alone, caps=capsv, strip_forks=True))[keep],
         'initial / final values with per-line capacities, strip_forks on vs off')
    # 3 cuda path
    s3 = sim(WaveSimCuda, dl=d_alone, act=actrl)
    same(r0, res(s3), 'WaveSimCuda vs WaveSim')
    if actrl is not None and not np.array_equal(np.array(s3.abuf), np.array(base.abuf)):
        raise Violation(f'WaveSimCuda abuf {np.array(s3.abuf).tolist()} != WaveSim abuf {np.array(base.abuf).tolist()}')
    ow = ([40 + 7 * case['seed'], 12, 90, 33 + case['pptime'], 5][:(case['pptime'] % 5)], bool(case['seed'] & 1))      # 0-4 timestamps, mostly not increasing; either terminator
    same(res(sim(dl=d_alone, owave=ow)), res(sim(WaveSimCuda, dl=d_alone, owave=ow)), f'capture of a written waveform {ow}: WaveSim vs WaveSimCuda')
    # 3d capture with an uncertain capture time: all transitions lie on the 1/8 grid, T between two grid points, sd = 1/64 - every transition is
    # at least 4 sd away (the capture probability is within 4e-5 of 0 or 1, so no random draw is involved), and both code paths report the same
    Tn = (case['pptime'] % 48) / 8 + 1 / 16
    same(res(sim(dl=d_alone, near=Tn)), res(sim(WaveSimCuda, dl=d_alone, near=Tn)), f'capture at {Tn} with sd=1/64: WaveSim vs WaveSimCuda')
    # 3e the same on the kernel class with sd = 2: transitions inside the undecided band, the captured value is drawn from (seed, lane, port) -
    # identical whatever the memory layout (the pure-Python fallback of the CPU class cannot run this branch: observation O5)
    opts_sd[0] = 2.0
    Te = (case['pptime'] % 48) / 8
    g0 = res(sim(WaveSimCuda, dl=d_alone, near=Te))
    same(g0, res(sim(WaveSimCuda, dl=d_alone, near=Te, c_reuse=True, strip_forks=sf)), f'WaveSimCuda capture at {Te} with sd=2: c_reuse, strip_forks={sf} vs plain')
    if np.any((g0[CMP_ROWS.index(7)] > 0.01) & (g0[CMP_ROWS.index(7)] < 0.99)): labels.append('sampled_capture')
    opts_sd[0] = 1 / 64
    s3b = sim(WaveSimCuda, dl=d_alone, c_reuse=True, strip_forks=sf)
    same(r0, res(s3b), f'WaveSimCuda(c_reuse, strip_forks={sf}) vs WaveSim plain')
    # 3b a simulator object that was used before with other stimuli behaves like a fresh one (both code paths, with memory reuse)
    if case.get('pre'):
        for klass in (WaveSim, WaveSimCuda):
            same(r0, res(sim(klass, dl=d_alone, pre=case['pre'])), f'{klass.__name__} used before vs fresh')
        same(r0, res(sim(dl=d_alone, pre=case['pre'], c_reuse=True, strip_forks=sf)), f'WaveSim(c_reuse, strip_forks={sf}) used before vs fresh')
    # 4 extra lanes
    wx = [case['waves'][k] + case['xwaves'][k] for k in range(len(case['waves']))]
    s4 = sim(waves=wx, dl=d_alone)
    same(r0, res(s4, list(range(lanes))), f'sims={lanes} vs sims={lanes + case["extra"]}')
    # 5 lane permutation
    perm = list(case['perm'])
    wp = [[case['waves'][k][p] for p in perm] for k in range(len(case['waves']))]
    s5 = sim(waves=wp, dl=d_alone)
    same(r0[:, :, perm], res(s5), f'lane permutation {perm}')
    # 6 first k lanes
    k = case['k']
    s6 = sim(dl=d_alone, ksims=k)
    same(r0[:, :, :k], res(s6, list(range(k))), f'c_prop(sims={k})')
    s6b = sim(WaveSimCuda, dl=d_alone, ksims=k)
    same(r0[:, :, :k], res(s6b, list(range(k))), f'WaveSimCuda c_prop(sims={k})')
    if case['seed'] % 2:
        same(r0, res(sim(dl=d_alone, ksims=lanes + 3)), f'c_prop(sims={lanes + 3}) with only {lanes} simulations allocated')
    # 7 dataset selection
    if case['nds'] > 1:
        for klass in (WaveSim, WaveSimCuda):
            s7 = sim(klass, mode=0, seed=g)
            same(r0, res(s7), f'{klass.__name__} simctl_int[1]=0, seed={g} vs dataset {g} alone')
            sel = case['dsel']
            s7b = sim(klass, mode=1, per_lane=sel, seed=case['seed'])
            for lane in range(lanes):
                ref = sim(dl=delays[sel[lane]:sel[lane] + 1])
                same(res(ref, [lane]), res(s7b, [lane]), f'{klass.__name__} simctl_int[1]=1 lane {lane} dataset {sel[lane]}')
            # the method is a per-simulation setting: lanes with method 0 (dataset = seed argument) next to lanes with method 1 (own dataset)
            mv = [((case['seed'] * 5 + 3) >> lane) & 1 for lane in range(lanes)]
            s7c = sim(klass, mode=mv, per_lane=sel, seed=g)
            for lane in range(lanes):
                ds = sel[lane] if mv[lane] else g
                ref = sim(dl=delays[ds:ds + 1])
                same(res(ref, [lane]), res(s7c, [lane]), f'{klass.__name__} simctl_int[1]={mv} lane {lane} dataset {ds}')
            if len(set(mv)) > 1 and 'mixed_selection_methods' not in labels: labels.append('mixed_selection_methods')
        labels.append('datasets>1')
    # 8 state transfer
    both = [b.s_pos(n) for kk, n in enumerate(b.st) if nl['st'][kk]['d'] is not None and len(n.outs) > 0]
    if both:
        base.s_ppo_to_ppi(time=case['pptime'] / W.GRID)
        s3.s_ppo_to_ppi(time=case['pptime'] / W.GRID)
        a, g_ = np.array(base.s)[:3][:, both], np.array(s3.s)[:3][:, both]
        if not np.array_equal(a, g_):
            raise Violation(f's_ppo_to_ppi: WaveSim gives {a.tolist()}, WaveSimCuda gives {g_.tolist()}')
        labels.append('ppo_to_ppi')
    multi_fork = any(len(n.outs) > 1 for n in c.forks.values())
    if multi_fork: labels.append('multi_output_fork')
    if reused: labels.append('memory_really_reused')
    if stripped: labels.append('forks_really_stripped')
    if len(base.level_starts) >= 3: labels.append('levels>=3')
    if actrl is not None: labels.append('abuf')
    if lanes > 32: labels.append('lanes>32')
    if max(int(b_ - a_) for a_, b_ in zip(base.level_starts, base.level_stops)) > 16: labels.append('level_wider_than_16_ops')
    labels.append('style_' + nl['style'])
    return Obs(multi_fork and len(base.level_starts) >= 3 and (reused or stripped), labels, checks=12)


# ---------------------------------------------------------------------------------------------

@st.composite
def logic_cases(draw, tier):
    big = tier == 'thorough'
    nl = draw(S.netlists(max_g=30 if big else 12, max_pi=5, max_st=3, need_d=False))
    m = draw(st.sampled_from([2, 4, 8]))
    sims = draw(S.SIMS.filter(lambda x: x <= 40))
    n = nl['pi'] + len(nl['st'])
    alpha = {2: [0, 3], 4: [0, 3, 0, 3, 1, 2], 8: [0, 3, 5, 6, 4, 7, 1, 2]}[m]
    rows = draw(S.codes(n, sims, alpha))
    extra = draw(st.integers(1, 9))
    xrows = draw(S.codes(n, extra, alpha))
    prerows = draw(S.codes(n, sims, alpha))
    return dict(nl=nl, m=m, sims=sims, stim=rows, pre=prerows, extra=extra, xstim=xrows, perm=draw(st.permutations(list(range(sims)))),
                fill=draw(st.integers(0, 3)))


def prop_logic(case):
    from kyupy.logic_sim import LogicSim
    nl, m, sims = case['nl'], case['m'], case['sims']
    b = build(nl)
    c = b.c
    s_len = len(c.s_nodes)
    in_rows = [b.s_pos(n) for n in b.pi] + [b.s_pos(n) for n in b.st]
    out_rows = [b.s_pos(n) for n in b.po] + [b.s_pos(n) for k, n in enumerate(b.st) if nl['st'][k]['d'] is not None]

    def sim(stim, pre=None, **opts):
        n = len(stim[0])
        s = LogicSim(c, n, m=m, **opts)
        for st_ in ([pre] if pre is not None else []) + [stim]:
            mv = np.full((s_len, n), case['fill'], dtype=np.uint8)
            for k, r in enumerate(in_rows):
                mv[r] = st_[k]
            s.s[0] = pack_bp(mv)
            s.s_to_c(); s.c_prop(); s.c_to_s()
        return s, unpack_bp(s.s[1], n)[out_rows]

    def same(a, b_, what):
        if not np.array_equal(a, b_):
            bad = np.argwhere(a != b_)[0]
            raise Violation(f'm={m} {what}: results differ at output row {out_rows[bad[0]]} lane {bad[1]}: {a[tuple(bad)]} vs {b_[tuple(bad)]}')

    base, r0 = sim(case['stim'])
    s1, r1 = sim(case['stim'], c_reuse=True)
    same(r0, r1, 'c_reuse on vs off')
    s2, r2 = sim(case['stim'], strip_forks=True)
    same(r0, r2, 'strip_forks on vs off')
    s3, r3 = sim(case['stim'], strip_forks=True, c_reuse=True)
    same(r0, r3, 'strip_forks+c_reuse vs plain')
    wx = [case['stim'][k] + case['xstim'][k] for k in range(len(case['stim']))]
    _, r4 = sim(wx)
    same(r0, r4[:, :sims], f'sims={sims} vs sims={sims + case["extra"]}')
    perm = list(case['perm'])
    wp = [[case['stim'][k][p] for p in perm] for k in range(len(case['stim']))]
    _, r5 = sim(wp)
    same(r0[:, perm], r5, 'lane permutation')
    if case.get('pre'):
        _, r6 = sim(case['stim'], pre=case['pre'], c_reuse=True)
        same(r0, r6, 'simulator used before (c_reuse) vs fresh')
    reused = s1.c_len < base.c_len
    stripped = len(s2.ops) < len(base.ops)
    multi_fork = any(len(n.outs) > 1 for n in c.forks.values())
    labels = [f'm{m}', 'style_' + nl['style']]
    if multi_fork: labels.append('multi_output_fork')
    if reused: labels.append('memory_really_reused')
    if stripped: labels.append('forks_really_stripped')
    if len(base.level_starts) >= 3: labels.append('levels>=3')
    return Obs(multi_fork and len(base.level_starts) >= 3 and (reused or stripped), labels, checks=5)


PARTS = [Part('wave', prop_wave, strategy=wave_cases, quick=(8, 100), thorough=(16, 1500)),
         Part('logic', prop_logic, strategy=logic_cases, quick=(8, 200), thorough=(16, 3000))]
