"""C03 - timing simulation settles to the Boolean function for any delays/capacity."""
import numpy as np
from hypothesis import strategies as st

from vk.core import Violation, Obs, Part
from vk import refmodel as rm, strategies as S, wave as W
from vk.build import build

ID = 'C03'
RULE = ('Part bigreuse: chains of 23000-46000 two-input cells with an unconnected pin (> 2^16 references to the constant-0 slot) with memory re-use: initial / final value and last arrival at every tap. Part stress: one or two 4-input gates at capacity 4-12 with up to 3 close edges per input and very unequal pin delays. Part settle: Hypothesis-generated netlists (XOR-rich, all primitives, forks, state elements as pseudo inputs/outputs, open pins) x four independent '
        'non-negative delays per line on a 1/8 grid (float32 or float64 arrays) x capacities (uniform 4/8/16/64 or per-line multiples of 4, biased '
        'small so that overflow happens) x 1..6 lanes x input waveforms with 0..3 transitions (0/1 through s[0..2], more written into the input '
        'slots of c) x strip_forks x optionally an earlier, different assignment and propagation on the same simulator object. Oracle: own Boolean evaluator: on every line the waveform starts at f(initial values) and its entry parity '
        'ends at f(final values); s[3]/s[6] report the same; every waveform is well formed. non-trivial: some line overflowed or carries >= 3 '
        'transitions; distinct by SHA-1 of the case.')
ASSUMPTIONS = ['per-line checks need c_reuse off (every line readable); a third of the cases use c_reuse and check the captured values only',
               'numba absent: kernels run as plain Python (same source)']

XOR_RICH = ['XOR', 'XNOR', 'XOR', 'XNOR', 'AND', 'NAND', 'OR', 'NOR', 'BUF', 'INV', 'AO21', 'OA21', 'AOI21', 'OAI21', 'AO22', 'OA22',
            'AOI22', 'OAI22', 'AO211', 'OA211', 'AOI211', 'OAI211', 'MUX21', 'XOR']


@st.composite
def cases(draw, tier):
    big = tier == 'thorough'
    nl = draw(S.netlists(max_g=24 if big else 10, max_pi=4, max_st=2, families=XOR_RICH, need_d=False, clock_pins=False))
    lanes = draw(st.integers(1, 6 if big else 3))
    n = nl['pi'] + len(nl['st'])
    waves = draw(W.input_waves(n, lanes))
    pre = draw(st.one_of(st.none(), W.input_waves(n, lanes)))      # an earlier assignment + propagation on the same simulator object
    return dict(nl=nl, lanes=lanes, waves=waves, pre=pre, dpool=draw(W.DELAY_POOL), caps=draw(W.CAPS),
                c_reuse=draw(st.sampled_from([False, False, True])), props=draw(st.integers(1, 2)),
                api=draw(st.integers(0, 3)), ctime=draw(st.one_of(st.none(), st.integers(0, 600), st.sampled_from(['far-', 'far+']))), f64=draw(st.booleans()), strip_forks=draw(st.booleans()), cuda=draw(st.sampled_from([False, False, False, True])))


def run(case, b, c_reuse=False, caps=None, cls=None):
    from kyupy.wave_sim import WaveSim, WaveSimCuda
    nl = case['nl']
    nlines = len(b.c.lines)
    delays = W.delays_for(nlines, case['dpool'], dtype='float64' if case.get('f64') else 'float32',
                          polarity_independent=case.get('pol_indep', False))
    caps = W.caps_for(nlines, case['caps']) if caps is None else caps
    if case.get('api') == 1 and not isinstance(caps, int):
        caps = [int(x) for x in caps]                  # a plain list instead of an ndarray
    if case.get('api') == 2:
        delays = delays[0]                             # a single dataset without the dataset axis
    klass = cls or (WaveSimCuda if case.get('cuda') else WaveSim)
    sim = klass(b.c, delays, sims=case['lanes'], c_caps=caps, c_reuse=c_reuse, strip_forks=case['strip_forks'])
    if case.get('pre'):         # results must only depend on the current assignment, not on what the simulator did before
        W.apply_inputs(sim, b, nl, case['pre'])
        sim.c_prop(); sim.c_to_s()
    W.apply_inputs(sim, b, nl, case['waves'])
    for _ in range(case.get('props', 1)):          # propagating again without a new assignment must give the same waveforms
        sim.c_prop()
    ct = case.get('ctime')
    if ct is None:
        sim.c_to_s()
    elif isinstance(ct, str):       # capture far before / far after all transitions with an uncertain capture time: settled data are the same
        sim.c_to_s(time=-10000.0 if ct == 'far-' else 100000.0, sd=0.5)
    else:
        sim.c_to_s(time=ct / W.GRID)
    return sim


def prop(case):
    nl, lanes = case['nl'], case['lanes']
    mask = (1 << lanes) - 1
    b = build(nl)
    sim = run(case, b, c_reuse=bool(case.get('c_reuse')))
    npi = nl['pi']
    ini, fin = W.init_final_bits(case['waves'], lanes)
    sig_i = rm.eval2(nl, ini[:npi], ini[npi:], mask)
    sig_f = rm.eval2(nl, fin[:npi], fin[npi:], mask)
    sig_i['zero'] = sig_f['zero'] = 0          # lines of floating nets
    n_ovl = 0
    n_busy = 0
    for line in ([] if case.get('c_reuse') else b.c.lines):       # with memory reuse only the captured values can be read
        src = b.line_src[line.index]
        for lane in range(lanes):
            w = W.line_wave(sim, line.index, lane)
            if w is None:
                raise Violation(f'line {line.index} ({src}) has no memory location')
            if not w['ok']:
                raise Violation(f'line {line.index} ({src}) lane {lane}: malformed waveform ({w["why"]})')
            ei = (sig_i[src] >> lane) & 1
            ef = (sig_f[src] >> lane) & 1
            if w['init'] != ei:
                raise Violation(f'line {line.index} ({src}) lane {lane}: waveform starts at {w["init"]}, function of initial values is {ei}')
            if w['final'] != ef:
                raise Violation(f'line {line.index} ({src}) lane {lane}: entry parity gives final value {w["final"]}, function of final '
                                f'values is {ef} (overflow={w["ovl"]}, {len(w["times"])} transitions)')
            n_ovl += w['ovl']
            n_busy += len(w['times']) >= 3
    # captured values
    rows = [(b.s_pos(n), nl['po'][k], f'o{k}') for k, n in enumerate(b.po)]
    rows += [(b.s_pos(n), nl['st'][k]['d'], f's{k}') for k, n in enumerate(b.st) if nl['st'][k]['d'] is not None]
    for row, src, what in rows:
        for lane in range(lanes):
            gi, gf = float(sim.s[3, row, lane]), float(sim.s[6, row, lane])
            ei, ef = (sig_i[src] >> lane) & 1, (sig_f[src] >> lane) & 1
            if gi != ei or gf != ef:
                raise Violation(f'{what} <- {src} lane {lane}: captured (initial, final) = ({gi}, {gf}), function says ({ei}, {ef})')
    labels = []
    if n_ovl: labels.append('overflow')
    if n_busy: labels.append('>=3_transitions')
    if case['strip_forks']: labels.append('strip_forks')
    if case.get('cuda'): labels.append('cuda_path')
    if not isinstance(case['caps'], int): labels.append('per_line_caps')
    if case['f64']: labels.append('float64_delays')
    if case.get('pre'): labels.append('simulator_reused')
    if case.get('c_reuse'):
        labels.append('c_reuse_outputs_only')
        n_busy = any(float(sim.s[5, row, lane]) > float(sim.s[4, row, lane]) for row, _, _ in rows for lane in range(lanes))
    if case.get('props', 1) > 1: labels.append('propagated_twice')
    return Obs(bool(n_ovl or n_busy), labels, checks=len(b.c.lines) * lanes)


@st.composite
def stress_cases(draw, tier):
    """the wide-gate stress netlists of C13 (minimum capacity, many close edges, very unequal pin delays): settled values must still be the function"""
    from vk.props.c13 import stress_cases as base
    c = draw(base(tier))
    return dict(nl=c['nl'], lanes=c['lanes'], waves=c['waves'], pre=None, dpool=c['dpool'], caps=draw(st.sampled_from([4, 4, 8, [4, 8, 4, 12]])),
                c_reuse=draw(st.booleans()), props=draw(st.integers(1, 2)), api=0, ctime=None, f64=False, strip_forks=c['strip_forks'],
                cuda=draw(st.sampled_from([False, False, True])))


def enum_bigreuse(tier):
    """more than 2^16 references to the constant-0 slot in a timing simulator with memory re-use"""
    yield dict(n=23000, tap=2300, c_reuse=True, strip_forks=False, lanes=2)
    if tier == 'thorough':
        yield dict(n=23000, tap=0, c_reuse=True, strip_forks=True, lanes=1)
        yield dict(n=46000, tap=5000, c_reuse=True, strip_forks=True, lanes=3)
        yield dict(n=23000, tap=2300, c_reuse=False, strip_forks=False, lanes=2)


def prop_bigreuse(case):
    from kyupy.wave_sim import WaveSim
    from vk import bigcirc
    lanes = case['lanes']
    va = 0b101 & ((1 << lanes) - 1)          # lane 0 rises, lane 1 falls, lane 2 rises
    c, exp_after, depth = bigcirc.openchain(case['n'], va, (1 << lanes) - 1, case['tap'])
    _, exp_before, _ = bigcirc.openchain(case['n'], ~va, (1 << lanes) - 1, case['tap'])
    delays = np.full((1, len(c.lines), 2, 2), 0.125, dtype=np.float32)
    for l in c.lines:
        if l.reader.kind in ('__fork__', 'output'):
            delays[:, l.index] = 0
    sim = WaveSim(c, delays, sims=lanes, c_caps=4, c_reuse=case['c_reuse'], strip_forks=case['strip_forks'])
    for lane in range(lanes):
        sim.s[0, 0, lane] = 1 - ((va >> lane) & 1)
        sim.s[1, 0, lane] = 1.0
        sim.s[2, 0, lane] = (va >> lane) & 1
    sim.s_to_c(); sim.c_prop(); sim.c_to_s()
    for k, (ea, eb, d) in enumerate(zip(exp_after, exp_before, depth)):
        for lane in range(lanes):
            got = (float(sim.s[3, 1 + k, lane]), float(sim.s[6, 1 + k, lane]), float(sim.s[5, 1 + k, lane]))
            want = (float((eb >> lane) & 1), float((ea >> lane) & 1), 1.0 + d * 0.125)
            if got != want:
                raise Violation(f'output {k} (after {d} cells with an unconnected second pin) lane {lane}: (initial, final, last arrival) = {got}, '
                                f'the netlist and its delays say {want}')
    return Obs(True, [f'n{case["n"]}', 'c_reuse' if case['c_reuse'] else 'no_reuse'], checks=len(depth) * lanes)


PARTS = [Part('bigreuse', prop_bigreuse, enumerate=enum_bigreuse, quick=(1, 0), thorough=(4, 0)),
         Part('stress', prop, strategy=stress_cases, quick=(4, 500), thorough=(16, 20000)),
         Part('settle', prop, strategy=cases, quick=(8, 400), thorough=(16, 10000))]
