"""C13 - capture results and switching-activity counts faithfully summarise waveforms."""
import numpy as np
from hypothesis import strategies as st

from vk.core import Violation, Obs, Part, HarnessError
from vk import refmodel as rm, strategies as S, wave as W
from vk.build import build
from vk.props.c03 import XOR_RICH

ID = 'C13'
RULE = ('Part stress: one or two 4-input gates at capacity 4, up to 3 edges per input within 5 time units, pin delays from {0..8}, oracles (a) and (b). Part capture: As C03 (overflow-provoking capacities included) plus capture time T (default, or a finite value on/next to a transition, before all, after all), '
        'accumulation-control tables of the documented shape (len(lines), 3) with accumulator -1/0..3 (shared accumulators), integer weights -3..3, '
        '1..2 propagations, WaveSim and WaveSimCuda. Oracles: (a) s[3..6], s[10] and the value at T (s[7], s[8], sd=0) recomputed from the raw output '
        'waveform (value at T only for waveforms with increasing timestamps); (b) second run with capacity above a computed transition bound must be '
        'overflow-free, and every output whose overflow indicator was clear has the identical waveform in both runs; (c) abuf[a, lane] = weighted '
        'rise/fall counts recomputed from the produced waveforms times the number of propagations. non-trivial: a finite T that separates two '
        'transitions of some output, or an output with clear indicator next to one with set indicator, or a shared accumulator with non-zero weights '
        'and a counted transition; distinct by SHA-1 of the case. (d) oracle (a) again after generated waveforms (timestamps in any order, any count up to the '
        'capacity, either terminator) were written straight into the output regions of a propagated simulator.')
ASSUMPTIONS = ['c_reuse off for (c) so that produced waveforms can be read back', 'sd = 0, except sd = 0.5 with capture times far before / after every transition (all captures certain; uncertain captures raise OverflowError in the pure-Python fallback, observation O5)']


@st.composite
def cases(draw, tier):
    big = tier == 'thorough'
    nl = draw(S.netlists(max_g=16 if big else 8, max_pi=4, max_st=2, families=XOR_RICH, need_d=True, clock_pins=False))
    lanes = draw(st.integers(1, 4 if big else 2))
    n = nl['pi'] + len(nl['st'])
    waves = draw(W.input_waves(n, lanes))
    WT = st.one_of(st.integers(-3, 3), st.integers(-3, 3), st.sampled_from([40000, -70000, 100000, 32768]))      # weights are plain integers: also beyond 16 bits
    actrl = draw(st.one_of(st.none(), st.lists(st.tuples(st.sampled_from([-1, 0, 0, 1, 2, 3]), WT, WT),
                                               min_size=4, max_size=12)))
    return dict(nl=nl, lanes=lanes, waves=waves, dpool=draw(W.DELAY_POOL), caps=draw(W.CAPS), f64=draw(st.booleans()),
                strip_forks=draw(st.booleans()), cuda=draw(st.sampled_from([False, False, True])),
                ctime=draw(st.one_of(st.none(), st.integers(-8, 700), st.tuples(st.integers(0, 40), st.integers(-1, 1)), st.sampled_from(['far-', 'far+']))),
                actrl=[list(x) for x in actrl] if actrl else None, props=draw(st.integers(1, 2)), partial=draw(st.sampled_from([0, 0, 1, 2, 3])),
                owave=draw(st.one_of(st.none(), st.lists(st.tuples(st.integers(0, 1), st.lists(st.integers(0, 700), max_size=6), st.booleans()),
                                                         min_size=1, max_size=4))))


@st.composite
def stress_cases(draw, tier):
    """one or two wide gates at minimum capacity with many close input edges and very unequal pin delays: overflow, pulse filtering and
    cancellation down to an empty waveform meet in one gate"""
    fam = draw(st.sampled_from(['XOR', 'XNOR', 'AND', 'OR', 'NAND', 'NOR']))
    g = [dict(f=fam, k=fam.lower() + '4', i=['i0', 'i1', 'i2', 'i3'])]
    if draw(st.booleans()):
        g.append(dict(f='XOR', k='xor2', i=['g0', draw(st.sampled_from(['i0', 'i3']))]))
    nl = dict(pi=4, st=[], g=g, po=[f'g{len(g) - 1}'] + (['g0'] if len(g) > 1 else []), style='cells',
              w={s_: draw(st.sampled_from(['D', 'F'])) for s_ in ['i0', 'i1', 'i2', 'i3', 'g0', 'g1']}, ports=['i0', 'i1', 'i2', 'i3', 'o0'] + (['o1'] if len(g) > 1 else []),
              rev=False)
    rd = rm.readers(nl)
    nl['w'] = {s_: ('F' if len(rd[s_]) > 1 else m) for s_, m in nl['w'].items() if s_ in rd}
    lanes = 4
    waves = [[dict(v=draw(st.integers(0, 1)), t=sorted(draw(st.lists(st.integers(0, 40), min_size=1, max_size=3, unique=True)))) for _ in range(lanes)] for _ in range(4)]
    for row in waves:
        for w_ in row:
            if w_['v'] and len(w_['t']) == 3: w_['t'] = w_['t'][:2]          # an input slot holds 4 entries: TMIN + 2 edges + terminator
    return dict(nl=nl, lanes=lanes, waves=waves, dpool=draw(st.lists(st.sampled_from([0, 1, 2, 3, 24, 40, 64]), min_size=8, max_size=16)), caps=4,
                f64=False, strip_forks=draw(st.booleans()), cuda=False, ctime=None, actrl=None, props=1, partial=0, owave=None)


def bound(nl, waves, lane):
    t = {}
    npi = nl['pi']
    for k in range(npi): t[f'i{k}'] = len(waves[k][lane]['t'])
    for k in range(len(nl['st'])): t[f's{k}'] = t[f'n{k}'] = len(waves[npi + k][lane]['t'])
    for k, g in enumerate(nl['g']):
        t[f'g{k}'] = sum(t[p] for p in g['i'] if p is not None)
    return max(t.values())


def make(case, b, caps, actrl, c_reuse=False):
    from kyupy.wave_sim import WaveSim, WaveSimCuda
    nlines = len(b.c.lines)
    delays = W.delays_for(nlines, case['dpool'], dtype='float64' if case['f64'] else 'float32')
    klass = WaveSimCuda if case['cuda'] else WaveSim
    sim = klass(b.c, delays, sims=case['lanes'], c_caps=caps, a_ctrl=actrl, c_reuse=c_reuse, strip_forks=case['strip_forks'])
    W.apply_inputs(sim, b, case['nl'], case['waves'])
    return sim


def prop(case):
    nl, lanes = case['nl'], case['lanes']
    b = build(nl)
    nlines = len(b.c.lines)
    actrl = None
    if case['actrl']:
        actrl = np.array([case['actrl'][l % len(case['actrl'])] for l in range(max(1, nlines))], dtype=np.int32)   # documented shape (len(lines), 3)
    sim = make(case, b, W.caps_for(nlines, case['caps']), actrl)
    for _ in range(case['props']):
        sim.c_prop()
    # capture time
    ct = case['ctime']
    rows = [(b.s_pos(n), f'o{k}') for k, n in enumerate(b.po)] + \
           [(b.s_pos(n), f's{k}') for k, n in enumerate(b.st) if nl['st'][k]['d'] is not None]

    def outwave(s, row, lane):
        loc = int(s.c_locs[s.ppo_offset + row]); cap = int(s.c_caps[s.ppo_offset + row])
        return W.parse_wave(np.array(s.c[loc:loc + cap, lane]))

    if isinstance(ct, (list, tuple)):     # relative to a transition of some output
        alltimes = sorted({t for row, _ in rows for lane in range(lanes) for t in outwave(sim, row, lane)['times']})
        T = (alltimes[ct[0] % len(alltimes)] + ct[1] / W.GRID) if alltimes else 1.0
    elif ct is None:
        T = None
    elif isinstance(ct, str):             # far before / far after every transition, with an uncertain capture time (sd > 0): every capture is certain
        T = -10000.0 if ct == 'far-' else 100000.0
    else:
        T = ct / W.GRID
    SD = 0.5 if isinstance(ct, str) else 0.0

    def capture(s_):
        if T is None: s_.c_to_s()
        elif SD: s_.c_to_s(time=T, sd=SD, seed=case['props'])
        else: s_.c_to_s(time=T)
    capture(sim)
    separates = False
    n_clear = n_set = 0
    skipped_nonmonotone = 0

    def summarise(sim, tag='', T=T):
        nonlocal separates, n_clear, n_set, skipped_nonmonotone
        for row, what in rows:
            for lane in range(lanes):
                w = outwave(sim, row, lane)
                if not w['ok']:
                    raise Violation(f'{tag}{what} lane {lane}: malformed output waveform ({w["why"]})')
                got = [float(sim.s[k, row, lane]) for k in range(3, 11)]
                eat = min(w['times']) if w['times'] else float(W.TMAX)
                lst = max(w['times']) if w['times'] else float(W.TMIN)
                exp = {3: w['init'], 4: eat, 5: lst, 6: w['final'], 10: int(w['ovl'])}
                for k, e in exp.items():
                    if got[k - 3] != float(e):
                        raise Violation(f'{tag}{what} lane {lane}: s[{k}] = {got[k - 3]}, waveform (init {w["init"]}, times {w["times"]}, ovl {w["ovl"]}) says {e}')
                mono = all(w['times'][i] < w['times'][i + 1] for i in range(len(w['times']) - 1))
                if mono:
                    tt = float('inf') if T is None else T
                    val = w['init'] ^ (sum(1 for t in w['times'] if t < tt) & 1)
                    if got[4] != val or got[5] != val:
                        raise Violation(f'{tag}{what} lane {lane}: value captured at T={T}: s[7]={got[4]}, s[8]={got[5]}, waveform (init {w["init"]}, '
                                        f'times {w["times"]}) has value {val} just before T')
                    if T is not None and any(t < T for t in w['times']) and any(t >= T for t in w['times']):
                        separates = True
                else:
                    skipped_nonmonotone += 1
                if w['ovl']: n_set += 1
                else: n_clear += 1

    summarise(sim)
    sim_clear, sim_set = n_clear, n_set         # counts of the simulated waveforms only (the written ones of (d) come later)
    # (b) unlimited capacity
    B = max(bound(nl, case['waves'], lane) for lane in range(lanes))
    checked_b = False
    if B <= 2048:
        big = 4 * ((B + 2 + 3) // 4) + 4
        sim2 = make(case, b, big, None)
        sim2.c_prop(); sim2.c_to_s()
        for l in b.c.lines:
            for lane in range(lanes):
                w2 = W.line_wave(sim2, l.index, lane)
                if w2['ovl']:
                    raise HarnessError(f'reference run with capacity {big} (bound {B}) overflowed')
        for row, what in rows:
            for lane in range(lanes):
                if float(sim.s[10, row, lane]) == 0:
                    w1, w2 = outwave(sim, row, lane), outwave(sim2, row, lane)
                    if w1['times'] != w2['times'] or w1['init'] != w2['init']:
                        raise Violation(f'{what} lane {lane}: overflow indicator clear but waveform {w1["times"]} differs from the '
                                        f'unlimited-capacity waveform {w2["times"]}')
                    checked_b = True
    # (c) accumulation
    shared = False
    if actrl is not None:
        abuf = np.array(sim.abuf)
        pi_forks = {id(n) for n in b.pi}
        produced = [l for l in b.c.lines
                    if not (case['strip_forks'] and l.driver.kind == '__fork__' and id(l.driver) not in pi_forks)]
        nacc = max([int(actrl[l.index][0]) for l in produced], default=-1) + 1   # accumulators of lines that are evaluated
        if nacc > 0:
            if abuf.ndim != 2 or abuf.shape[0] < nacc or abuf.shape[1] != lanes:
                raise Violation(f'abuf shape {abuf.shape}, need at least ({nacc}, {lanes})')
            exp = np.zeros((abuf.shape[0], lanes), dtype=np.int64)
            users = {}
            counted = {}
            for l in produced:
                a, wr, wf = [int(x) for x in actrl[l.index]]
                if a < 0:
                    continue
                users[a] = users.get(a, 0) + 1
                for lane in range(lanes):
                    w = W.line_wave(sim, l.index, lane)
                    n = len(w['times'])
                    rises = (n + 1) // 2 if w['init'] == 0 else n // 2
                    falls = n - rises
                    exp[a, lane] += case['props'] * (rises * wr + falls * wf)
                    if n and wr and wf:
                        counted[a] = True
            if not np.array_equal(abuf.astype(np.int64), exp):
                raise Violation(f'abuf = {abuf.tolist()}, recomputed from the waveforms: {exp.tolist()} ({case["props"]} propagation(s))')
            shared = any(users.get(a, 0) >= 2 and counted.get(a) for a in users)
    # (d) the same summary for waveforms written straight into the output regions (any order of timestamps, any count up to the capacity)
    injected_nonmono = False
    if case.get('owave'):
        sim3 = make(case, b, W.caps_for(nlines, case['caps']), None)
        sim3.c_prop()
        for row, what in rows:
            loc = int(sim3.c_locs[sim3.ppo_offset + row]); cap = int(sim3.c_caps[sim3.ppo_offset + row])
            for lane in range(lanes):
                init, times, ovl = case['owave'][(row + 3 * lane) % len(case['owave'])]
                ent = ([W.TMIN] if init else []) + [np.float32(t / W.GRID) for t in times]
                ent = ent[:cap - 1] + [W.TMAX_OVL if ovl else W.TMAX]
                if loc < 0 or loc + cap > sim3.c.shape[0]:
                    raise Violation(f'the region [{loc}, {loc + cap}) that c_locs / c_caps report for a captured line lies outside the signal memory ({sim3.c.shape[0]} rows)')
                sim3.c[loc:loc + len(ent), lane] = ent
                ts = [float(x) for x in ent[(1 if init else 0):-1]]
                if any(ts[i] >= ts[i + 1] for i in range(len(ts) - 1)): injected_nonmono = True
        capture(sim3)
        summarise(sim3, 'waveform written into the output region: ')
    # (e) propagation restricted to the first k lanes, then a capture at another time: capture covers all lanes (their waveforms are still there)
    partial = False
    if case.get('partial') and lanes > 1 and not isinstance(ct, str):
        k = 1 + case['partial'] % (lanes - 1)
        sim.c_prop(sims=k)
        T2 = 2.5 if T is None else T + 1.375
        sim.c_to_s(time=T2)
        summarise(sim, f'after c_prop(sims={k}) and a capture at {T2}: ', T2)
        partial = True
    labels = []
    if partial: labels.append('partial_propagation_then_capture')
    if injected_nonmono: labels.append('written_waveform_not_increasing')
    if separates: labels.append('T_separates_transitions')
    if sim_clear and sim_set: labels.append('mixed_overflow_flags')
    if sim_set: labels.append('overflow')
    if shared: labels.append('shared_accumulator')
    if case['cuda']: labels.append('cuda_path')
    if SD: labels.append('sd>0_certain_capture')
    if skipped_nonmonotone: labels.append('nonmonotone_skipped')
    if checked_b: labels.append('unlimited_compared')
    return Obs(separates or (sim_clear and sim_set and checked_b) or shared, labels, checks=len(rows) * lanes)


PARTS = [Part('stress', prop, strategy=stress_cases, quick=(4, 500), thorough=(16, 20000)),
         Part('capture', prop, strategy=cases, quick=(8, 250), thorough=(16, 8000))]
