"""C16 - the fault-injection callback sees and controls every evaluated signal."""
import copy
import functools
import operator
import pickle

import numpy as np
from hypothesis import strategies as st

from vk.core import Violation, Obs, Part, HarnessError
from vk import refmodel as rm, strategies as S
from vk.build import build, pack_bp, unpack_bp

ID = 'C16'
RULE = ('Hypothesis-generated netlists x stimuli x m in {2,4,8} x {c_reuse} x {strip_forks} x a target line x replacement values. Oracles: '
        '(a) a recording callback is invoked exactly once for every line that has a simulated driver (with strip_forks: every line not driven by a '
        'stripped fork), in an order consistent with the netlist (a line after the lines feeding its driver), with a writable array holding the '
        'value an own line-level evaluator predicts; (b) a callback that does nothing leaves all results equal to inject_cb=None; (c) a callback '
        'that overwrites line L gives (also on a simulator restored from a pickle or a deepcopy), at all outputs and state elements, the results of the own evaluator with L cut and driven by the replacement '
        'values (also through cycle()). non-trivial: L has an output in its fan-out and one outside it and the replacement differs from the natural '
        'value in some lane; distinct by SHA-1 of the case. One case in 25 has 100-150 gates (>= 256 lines). Callback form 4 returns a changed copy of the array it was given (the return value means nothing).')
ASSUMPTIONS = ['callback identity accepted as a Line object or a plain line index (operator.index)',
               'line-level reference evaluator in this file walks the Circuit built through the public API']


@st.composite
def cases(draw, tier):
    big = tier == 'thorough'
    large = draw(st.integers(0, 24)) == 0              # occasionally 100-150 gates (several hundred lines, among them floating gate outputs)
    nl = draw(S.netlists(max_g=150 if large else (24 if big else 10), min_g=100 if large else 0, max_pi=5, max_st=2, need_d=True))
    m = draw(st.sampled_from([2, 4, 8]))
    sims = draw(st.integers(1, 12))
    n = nl['pi'] + len(nl['st'])
    alpha = {2: [0, 3], 4: [0, 3, 0, 3, 1, 2], 8: [0, 3, 5, 6, 4, 7, 0, 3, 1, 2]}[m]
    stim = draw(S.codes(n, sims, alpha))
    repl = draw(st.lists(st.sampled_from(alpha), min_size=sims, max_size=sims))
    return dict(nl=nl, m=m, sims=sims, stim=stim, repl=repl, target=draw(st.integers(0, 10000)),
                c_reuse=draw(st.booleans()), strip_forks=draw(st.booleans()), cycles=draw(st.sampled_from([0, 0, 1, 2])),
                copied=draw(st.sampled_from([0, 0, 0, 1, 2])), cbform=draw(st.sampled_from([0, 0, 1, 2, 3, 4])))


class LineEval:
    """value of every line, per lane, in the abstract algebra (m=2 uses 0/3 codes of the same algebra)."""
    def __init__(self, b, nl, pi_codes, st_codes, override=None):
        self.b, self.nl = b, nl
        self.pi = {id(n): k for k, n in enumerate(b.pi)}
        self.st = {id(n): k for k, n in enumerate(b.st)}
        self.g = {id(n): k for k, n in enumerate(b.g)}
        self.pi_codes, self.st_codes = pi_codes, st_codes
        self.override = override or {}
        self.memo = {}

    def line(self, l):
        if l.index in self.memo:
            return self.memo[l.index]
        if l.index in self.override:
            v = rm.dec(self.override[l.index])
        else:
            v = self.node_out(l.driver, l.driver_pin)
        self.memo[l.index] = v
        return v

    def node_out(self, n, pin):
        i = id(n)
        if i in self.pi:
            return rm.dec(self.pi_codes[self.pi[i]])
        if i in self.st:
            v = rm.dec(self.st_codes[self.st[i]])
            return rm.mv_not(v) if (pin == 1 and self.nl['st'][self.st[i]]['t'] == 'D') else v
        if n.kind == '__fork__':
            if len(n.ins) == 0 or n.ins[0] is None:
                return (0, 0, 0)                   # floating net: constant 0
            return self.line(n.ins[0])
        k = self.g[i]
        g = self.nl['g'][k]
        ar = rm.arity(g['f'], g['i'])
        vals = []
        for p in range(ar):
            ln = n.ins[p] if p < len(n.ins) else None
            vals.append(self.line(ln) if ln is not None else (0, 0, 0))
        return rm.gate_mv(g['f'], vals)


def cls(code):
    return 1 if code == 2 else code


class _Abort(Exception):
    pass


def prop(case):
    from kyupy.logic_sim import LogicSim
    nl, m, sims = case['nl'], case['m'], case['sims']
    b = build(nl)
    c = b.c
    s_len = len(c.s_nodes)
    npi = nl['pi']
    in_rows = [b.s_pos(n) for n in b.pi] + [b.s_pos(n) for n in b.st]
    outs = [(b.s_pos(n), n.ins[0]) for n in b.po] + [(b.s_pos(n), n.ins[0]) for k, n in enumerate(b.st) if nl['st'][k]['d'] is not None]
    planes = {2: 1, 4: 2, 8: 3}[m]

    aborted_first = (case['target'] // 4) % 3 == 0

    def fresh():
        s = LogicSim(c, sims, m=m, c_reuse=case['c_reuse'], strip_forks=case['strip_forks'])
        mv = np.full((s_len, sims), 2 if m > 2 else 0, dtype=np.uint8)
        for k, r in enumerate(in_rows):
            mv[r] = case['stim'][k]
        s.s[0] = pack_bp(mv)
        if case.get('copied') == 1:         # a simulator that went through pickle (e.g. to a worker process) or deepcopy is a simulator like any other
            s = pickle.loads(pickle.dumps(s))
        elif case.get('copied') == 2:
            s = copy.deepcopy(s)
        if aborted_first:
            # history: an earlier propagation on this simulator whose callback raised after a few signals (the caller caught the exception);
            # the simulator is assigned and propagated again afterwards like any other
            seen = []

            def raiser(line, arr):
                seen.append(1)
                if len(seen) > case['target'] % 4:
                    raise _Abort()
            s.s_to_c()
            try:
                s.c_prop(inject_cb=raiser)
            except _Abort:
                pass
        return s

    def results(s):
        r = unpack_bp(s.s[1], sims)
        return np.array([[cls(int(x) & (7 if m == 8 else 3)) for x in r[row]] for row, _ in outs], dtype=np.uint8)

    def evaluators(override_idx=None):
        evs = []
        for lane in range(sims):
            pi = [case['stim'][k][lane] for k in range(npi)]
            stt = [case['stim'][npi + k][lane] for k in range(len(nl['st']))]
            ov = {override_idx: case['repl'][lane]} if override_idx is not None else None
            evs.append(LineEval(b, nl, pi, stt, ov))
        return evs

    # reference run without callback
    s0 = fresh(); s0.s_to_c(); s0.c_prop(); s0.c_to_s()
    r0 = results(s0)
    # (a) recording callback
    evs = evaluators()
    calls = []
    pi_forks = {id(n) for n in b.pi}

    def rec(line, arr):
        idx = operator.index(line)
        if not isinstance(arr, np.ndarray) or arr.shape != (planes, (sims + 7) // 8):
            raise Violation(f'callback for line {idx}: value argument is {type(arr).__name__} of shape {getattr(arr, "shape", None)}, '
                            f'expected writable ndarray ({planes}, {(sims + 7) // 8})')
        if not arr.flags.writeable:
            raise Violation(f'callback for line {idx}: array is not writable')
        full = np.zeros((3, arr.shape[-1]), dtype=np.uint8)
        full[:planes] = arr
        if m == 2:
            full[1] = full[0]
        codes = unpack_bp(full[np.newaxis], sims)[0]
        if idx < 0 or idx >= len(c.lines):
            raise Violation(f'callback identity {idx} is not a line index')
        for lane in range(sims):
            e = rm.enc(evs[lane].line(c.lines[idx]))
            if cls(int(codes[lane])) != cls(e):
                raise Violation(f'callback for line {idx} ({b.line_src[idx]}) lane {lane}: array holds code {int(codes[lane])}, '
                                f'freshly computed value is {e}')
        calls.append(idx)

    def as_callback(f):
        """the callback in another shape a caller may well use: a bound method, a functools.partial, or a callable container object that
        collects what it sees (a list subclass - empty, hence falsy, until the first call)"""
        form = case.get('cbform', 0)
        if form == 1:
            class Holder:
                def method(self, line, arr): return f(line, arr)
            return Holder().method
        if form == 2:
            return functools.partial(lambda tag, line, arr: f(line, arr), 'tag')
        if form == 4:         # a callback that hands something back (a changed copy of what it saw): the return value means nothing
            return lambda line, arr: (f(line, arr), ~arr)[1]
        if form == 3:
            class Log(list):
                def __call__(self, line, arr):
                    self.append(operator.index(line)); return f(line, arr)
            return Log()
        return f

    s1 = fresh(); s1.s_to_c(); s1.c_prop(inject_cb=as_callback(rec)); s1.c_to_s()
    expected_lines = set()
    optional = set()
    for l in c.lines:
        if case['strip_forks'] and l.driver.kind == '__fork__' and id(l.driver) not in pi_forks:
            if len(l.driver.ins) == 0 or l.driver.ins[0] is None:
                optional.add(l.index)       # a floating net (constant 0) behind a stripped fork: whether that counts as evaluated is left open
            continue
        expected_lines.add(l.index)
    if sorted(set(calls) - optional) != sorted(expected_lines) or len(calls) != len(set(calls)):
        missing = sorted(expected_lines - set(calls)); extra = sorted(set(calls) - expected_lines)
        dup = sorted({x for x in calls if calls.count(x) > 1})
        raise Violation(f'm={m}: callback invoked for {len(calls)} lines; not called for {missing[:8]}, unexpected {extra[:8]}, repeated {dup[:8]}')
    pos = {idx: i for i, idx in enumerate(calls)}
    st_nodes = {id(n) for n in b.st}
    for idx in calls:
        d = c.lines[idx].driver
        if id(d) in st_nodes or id(d) in pi_forks:
            continue
        for li in d.ins:
            if li is None:
                continue
            # walk over stripped forks to the evaluated stem
            x = li
            while x.index not in pos and x.driver.kind == '__fork__' and x.driver.ins and x.driver.ins[0] is not None:
                x = x.driver.ins[0]
            if x.index in pos and pos[x.index] >= pos[idx]:
                raise Violation(f'callback for line {idx} came before the callback for line {x.index} which feeds its driver')
    if not np.array_equal(results(s1), r0):
        raise Violation(f'm={m}: a callback that does not touch the values changed the results')
    # (c) overwriting callback on a target line
    if not calls:
        return Obs(False, [f'm{m}'])
    target = calls[case['target'] % len(calls)]
    repl = np.array(case['repl'], dtype=np.uint8)
    rbp = pack_bp(repl[np.newaxis])[0][:planes]
    hits = []

    def inj(line, arr):
        if operator.index(line) == target:
            arr[...] = rbp
            hits.append(1)

    cycles = case['cycles']
    s2 = fresh()
    if cycles == 0:
        s2.s_to_c(); s2.c_prop(inject_cb=as_callback(inj)); s2.c_to_s()
        evo = evaluators(target)
        exp = np.array([[cls(rm.enc(evo[lane].line(ln))) for lane in range(sims)] for _, ln in outs], dtype=np.uint8)
    else:
        if m == 8:
            cycles = 0          # 8-valued state transfer builds transitions; covered for 2/4-valued
            s2.s_to_c(); s2.c_prop(inject_cb=inj); s2.c_to_s()
            evo = evaluators(target)
            exp = np.array([[cls(rm.enc(evo[lane].line(ln))) for lane in range(sims)] for _, ln in outs], dtype=np.uint8)
        else:
            s2.cycle(cycles, inject_cb=as_callback(inj))
            stim = [list(r) for r in case['stim']]
            for _ in range(cycles):
                evo = []
                for lane in range(sims):
                    pi = [stim[k][lane] for k in range(npi)]
                    stt = [stim[npi + k][lane] for k in range(len(nl['st']))]
                    evo.append(LineEval(b, nl, pi, stt, {target: case['repl'][lane]}))
                exp = np.array([[cls(rm.enc(evo[lane].line(ln))) for lane in range(sims)] for _, ln in outs], dtype=np.uint8)
                for k, n in enumerate(b.st):      # next state = captured data pin (need_d: all connected)
                    for lane in range(sims):
                        v = rm.enc(evo[lane].line(n.ins[0]))
                        stim[npi + k][lane] = v if m == 4 else 3 * (v & 1)
    got = results(s2)
    if len(hits) != max(1, cycles):
        raise Violation(f'm={m}: callback for target line {target} invoked {len(hits)} times in {max(1, cycles)} propagation(s)')
    if not np.array_equal(got, exp):
        bad = np.argwhere(got != exp)[0]
        raise Violation(f'm={m}: overwriting line {target} ({b.line_src[target]}) with {case["repl"]}: output row {outs[bad[0]][0]} lane {bad[1]} '
                        f'= {got[tuple(bad)]}, circuit with that line cut and driven gives {exp[tuple(bad)]}')
    # classification: fan-out of target reaches some output but not all, replacement differs
    changed_rows = np.any(got != r0, axis=1) if cycles == 0 else np.array([True])
    nat = [cls(rm.enc(evs[lane].line(c.lines[target]))) for lane in range(sims)]
    differs = any(cls(int(repl[lane])) != nat[lane] for lane in range(sims))
    reach = set()
    stack = [c.lines[target]]
    seen = set()
    while stack:
        l = stack.pop()
        if l.index in seen:
            continue
        seen.add(l.index)
        r = l.reader
        if id(r) in st_nodes:
            continue
        for lo in r.outs:
            if lo is not None:
                stack.append(lo)
    in_fo = [ln.index in seen for _, ln in outs]
    labels = [f'm{m}']
    if case['strip_forks']: labels.append('strip_forks')
    if case['c_reuse']: labels.append('c_reuse')
    if cycles: labels.append('through_cycle')
    if len(b.c.lines) >= 256: labels.append('>=256_lines')
    if case.get('copied'): labels.append('simulator_pickled_or_copied')
    if aborted_first: labels.append('after_a_propagation_aborted_by_a_raising_callback')
    if case.get('cbform'): labels.append(['', 'callback_bound_method', 'callback_partial', 'callback_callable_container', 'callback_returns_an_array'][case['cbform']])
    if differs: labels.append('replacement_differs')
    if any(in_fo) and not all(in_fo): labels.append('target_partially_observable')
    return Obs(differs and any(in_fo) and not all(in_fo), labels, checks=len(calls) + len(outs))


def enum_wide(tier):
    """rows wider than 2^16 bytes (more than 524288 patterns in one batch)"""
    for j, sims in enumerate([600000] if tier == 'quick' else [524289, 600000, 1100003]):
        for m in (2, 4, 8):
            yield dict(sims=sims, m=m, c_reuse=bool((j + m) & 2), strip_forks=bool(m & 4))


def prop_wide(case):
    from kyupy import bench
    from kyupy.logic_sim import LogicSim
    sims, m = case['sims'], case['m']
    c = bench.parse('input(a,b) output(z) y=AND(a,b) z=NOT(y)')
    planes = {2: 1, 4: 2, 8: 3}[m]
    nbytes = (sims + 7) // 8
    va = ((np.arange(nbytes, dtype=np.uint64) * np.uint64(2654435761)) >> np.uint64(5)).astype(np.uint8)
    vb = ((np.arange(nbytes, dtype=np.uint64) * np.uint64(40503)) >> np.uint64(2)).astype(np.uint8)
    names = [n.name for n in c.s_nodes]

    def fresh():
        s = LogicSim(c, sims, m=m, c_reuse=case['c_reuse'], strip_forks=case['strip_forks'])
        s.s[0] = 0
        s.s[0, names.index('a'), 0] = va; s.s[0, names.index('a'), 1] = va          # 0/1 values: planes 0 and 1 equal, no activity
        s.s[0, names.index('b'), 0] = vb; s.s[0, names.index('b'), 1] = vb
        return s
    tail = (1 << (sims - 8 * (nbytes - 1))) - 1
    calls = []
    ytarget = c.cells['y'].outs[0].index

    def cb(line, arr):
        idx = operator.index(line)
        if not isinstance(arr, np.ndarray) or arr.shape != (planes, nbytes):
            raise Violation(f'm={m}, {sims} patterns: callback for line {idx} got an array of shape {getattr(arr, "shape", None)}, expected ({planes}, {nbytes})')
        calls.append(idx)
        if idx == ytarget:
            arr[...] = 0xff           # force the AND output to 1 in every pattern
    s = fresh(); s.s_to_c(); s.c_prop(inject_cb=cb); s.c_to_s()
    expected_calls = sorted(l.index for l in c.lines if not (case['strip_forks'] and l.driver.kind == '__fork__' and l.driver.name not in ('a', 'b')))
    if sorted(calls) != expected_calls:
        raise Violation(f'm={m}, {sims} patterns: callback invoked for lines {sorted(calls)}, the evaluated lines are {expected_calls}')
    z = np.array(s.s[1, names.index('z'), 0])
    z[-1] &= tail
    if np.any(z != 0):
        bad = int(np.flatnonzero(z)[0])
        raise Violation(f'm={m}, {sims} patterns: AND output forced to 1 by the callback, but z is 1 in pattern byte {bad} (the overwrite did not reach it)')
    s0 = fresh(); s0.s_to_c(); s0.c_prop(); s0.c_to_s()
    z0 = np.array(s0.s[1, names.index('z'), 0]); want = ~(va & vb)
    z0[-1] &= tail; want[-1] &= tail
    if not np.array_equal(z0, want):
        raise Violation(f'm={m}, {sims} patterns: z != not(a and b) without callback')
    return Obs(True, [f'm{m}', 'row_wider_than_65536_bytes'], checks=len(calls) + 2)


PARTS = [Part('wide', prop_wide, enumerate=enum_wide, quick=(3, 0), thorough=(9, 0)),
         Part('inject', prop, strategy=cases, quick=(8, 500), thorough=(16, 10000))]
