"""Helpers shared by the timing-simulation properties (C03, C04, C05, C06, C07, C13)."""
import numpy as np
from hypothesis import strategies as st

from vk.core import Violation, HarnessError
from vk import refmodel as rm

GRID = 8.0          # all generated times and delays are integer multiples of 1/GRID (exact in float32)
TMAX = np.float32(2 ** 127)
TMAX_OVL = np.float32(1.1 * 2 ** 127)
TMIN = np.float32(-2 ** 127)


def delays_for(nlines, pool, polarity_independent=False, dtype='float32', scale=1.0, datasets=1):
    """Delay array [datasets, nlines, 2, 2] from a pool of integers (grid units)."""
    d = np.zeros((datasets, max(nlines, 1), 2, 2), dtype=dtype)
    n = len(pool)
    for ds in range(datasets):
        for l in range(nlines):
            for j in range(4):
                k = (ds * 7919 + 4 * l + (0 if polarity_independent else j)) % n
                d[ds, l, j >> 1, j & 1] = pool[k] / GRID * scale
    return d


def caps_for(nlines, spec):
    """spec: int (uniform) or list of ints (pool of multiples of 4, per line)."""
    if isinstance(spec, int):
        return spec
    return np.array([spec[l % len(spec)] for l in range(nlines)], dtype=np.int32)


DELAY_POOL = st.lists(st.one_of(st.sampled_from([0, 0, 1, 2, 4, 8, 16, 64]), st.integers(0, 64)), min_size=8, max_size=24)
CAPS = st.one_of(st.sampled_from([4, 4, 8, 16, 64, 128, 256, 1020]),
                 st.lists(st.sampled_from([4, 4, 4, 8, 8, 12, 16, 32, 132, 512]), min_size=3, max_size=12))


@st.composite
def input_waves(draw, n, lanes, max_trans=3, tmax=512, single_only=False):
    """n inputs x lanes waveforms: {'v': initial value, 't': [strictly increasing transition times in grid units]}."""
    out = []
    tmax = draw(st.sampled_from([tmax, tmax, 64, 24]))       # sometimes all edges close together (within the range of the delays): pulses interact
    for _ in range(n):
        row = []
        for _ in range(lanes):
            v = draw(st.integers(0, 1))
            cap = (1 if single_only else (max_trans if v == 0 else max_trans - 1))
            ts = draw(st.lists(st.integers(0, tmax), min_size=0, max_size=cap, unique=True))
            row.append(dict(v=v, t=sorted(ts)))
        out.append(row)
    return out


def apply_inputs(sim, b, nl, waves, scale=1.0, shift=0.0):
    """Assigns the input waveforms of PIs and state elements. 0/1 transition through s[0..2] and s_to_c(),
    more transitions written into the input slots of c (capacity 4) after s_to_c()."""
    rows = [b.s_pos(n) for n in b.pi] + [b.s_pos(n) for n in b.st]
    for k, row in enumerate(rows):
        for lane, w in enumerate(waves[k]):
            fin = w['v'] ^ (len(w['t']) & 1)
            sim.s[0, row, lane] = w['v']
            sim.s[1, row, lane] = (w['t'][0] / GRID * scale + shift) if w['t'] else 0.0
            sim.s[2, row, lane] = fin if len(w['t']) <= 1 else w['v']
    sim.s_to_c()
    for k, row in enumerate(rows):
        loc = int(sim.c_locs[sim.ppi_offset + row])
        if loc < 0:
            continue
        for lane, w in enumerate(waves[k]):
            if len(w['t']) > 1:
                ent = ([TMIN] if w['v'] else []) + [np.float32(t / GRID * scale + shift) for t in w['t']] + [TMAX]
                if len(ent) > 4:
                    raise HarnessError('input waveform exceeds the input slot capacity')
                sim.c[loc:loc + len(ent), lane] = ent


def parse_wave(w):
    """w: 1-D float array (one waveform region). -> dict(init, times, ovl, n, ok, why)"""
    init = 1 if w[0] <= TMIN else 0
    times = []
    n = 0
    ovl = False
    ok = True
    why = ''
    term = False
    for i, t in enumerate(w):
        if t >= TMAX:
            ovl = bool(t > TMAX)
            term = True
            break
        n += 1
        if t <= TMIN:
            if i != 0:
                ok = False; why = f'TMIN at position {i}'
            continue
        times.append(float(t))
    if not term:
        ok = False; why = 'no terminator inside the capacity'
    return dict(init=init, times=times, ovl=ovl, n=n, ok=ok, why=why, final=n & 1)


def line_wave(sim, line_idx, lane):
    loc = int(sim.c_locs[line_idx]); cap = int(sim.c_caps[line_idx])
    if loc < 0:
        return None
    return parse_wave(np.array(sim.c[loc:loc + cap, lane]))


def init_final_bits(waves, lanes):
    """-> (init bit-vectors per input, final bit-vectors per input) over lanes"""
    ini, fin = [], []
    for row in waves:
        a = b_ = 0
        for lane, w in enumerate(row):
            a |= w['v'] << lane
            b_ |= (w['v'] ^ (len(w['t']) & 1)) << lane
        ini.append(a); fin.append(b_)
    return ini, fin


def op_inputs(nl, b):
    """For every line: the list of (input line index) its driver op reads — from the abstract netlist, not from kyupy.
    Returns dict line_idx -> ('pi', input_number) | ('op', [line idx or None per pin], family)"""
    raise NotImplementedError
