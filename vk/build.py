"""Builds a kyupy Circuit from an abstract netlist through the public Node/Line API only."""
import numpy as np

from kyupy.circuit import Circuit, Node, Line

from vk import refmodel as rm
from vk.core import HarnessError


class Built:
    def __init__(self):
        self.c = None
        self.pi = []        # Node per primary input
        self.po = []        # Node per primary output (cell or fork)
        self.st = []        # Node per state element
        self.g = []         # Node per gate
        self.rline = {}     # reader descriptor tuple -> Line arriving at that pin
        self.siglines = {}  # src -> [Line] all lines that carry the signal (stem, branches)
        self.stemline = {}  # src -> Line leaving the driver
        self.line_src = {}  # line index -> src
        self.flt = []       # lines from undriven forks (floating nets, constant 0) to operand pins

    def s_order(self):
        """the documented order of the rows of `s`: ports as listed in io_nodes, then all flip-flops, then all latches. Ports and the two groups
        are computed here from the port and node lists; only the order *inside* a group (not documented) is taken over from Circuit.s_nodes."""
        c = self.c
        sn = list(c.s_nodes)

        def group(nodes):
            ids = {id(n) for n in nodes}
            as_listed = [n for n in sn if id(n) in ids and not any(n is p for p in c.io_nodes)]
            return as_listed if len(as_listed) == len(nodes) and len({id(n) for n in as_listed}) == len(nodes) else nodes
        return list(c.io_nodes) + group([n for n in c.nodes if 'dff' in n.kind.lower()]) + group([n for n in c.nodes if 'latch' in n.kind.lower()])

    def s_pos(self, node):
        for i, n in enumerate(self.s_order()):
            if n is node:
                return i
        raise HarnessError(f'{node} is not a port or state element')


ST_SUFFIX = ['', 'S', 'I', 'SI', '_IS', 'si', 'X']


def st_name(nl, k):
    """instance name of state element k: s<k> plus a suffix chosen by nl['stnames'] (names ending in capital letters, as register names do)"""
    v = nl.get('stnames')
    return f's{k}' if not v else f's{k}' + ST_SUFFIX[(v >> (3 * k)) % len(ST_SUFFIX)]


def build(nl, name='top'):
    b = Built()
    c = b.c = Circuit(name)
    cells = nl['style'] == 'cells'
    placeholder = Node(c, 'zz_placeholder', 'buf') if nl.get('movedff') or nl.get('holdph') else None      # node index 0, removed again at the end
    b.placeholder = None
    rd = rm.readers(nl)
    npi = nl['pi']
    # nodes ------------------------------------------------------------------------------------
    port_node = {}
    if cells:
        for k in range(npi):
            b.pi.append(Node(c, f'i{k}', 'input'))
        for k in range(len(nl['po'])):
            b.po.append(Node(c, f'o{k}', 'output'))
    else:
        for k in range(npi):
            b.pi.append(Node(c, f'i{k}'))          # input fork
        b.po = [None] * len(nl['po'])
    gate_nodes = [None] * len(nl['g'])
    order = list(range(len(nl['g'])))
    if nl.get('rev'):
        order.reverse()
    b.st = [None] * len(nl['st'])
    for k in (reversed(range(len(nl['st']))) if nl.get('strev') else range(len(nl['st']))):     # creation order = order in s_nodes
        b.st[k] = Node(c, st_name(nl, k), nl['st'][k]['k'])
    for k in order:
        gate_nodes[k] = Node(c, f'g{k}', nl['g'][k]['k'])
    b.g = gate_nodes

    def driver(src):
        t, k = src[0], int(src[1:])
        if t == 'i': return b.pi[k], 0
        if t == 's': return b.st[k], 0
        if t == 'n': return b.st[k], 1
        return b.g[k], 0

    def reader_pin(r):
        if r[0] == 'g': return b.g[r[1]], r[2]
        if r[0] == 's': return b.st[r[1]], r[2]
        return b.po[r[1]], 0

    # lines ------------------------------------------------------------------------------------
    sigs = sorted(rd)
    if nl.get('rev'):
        sigs.reverse()
    for src in sigs:
        readers = list(rd[src])
        mode = nl['w'].get(src, 'F')
        drv, dpin = driver(src)
        lines = []
        is_port_fork = (not cells) and src[0] == 'i'
        po_idx = [r[1] for r in readers if r[0] == 'o']
        if not cells:
            real_readers = [r for r in readers if r[0] != 'o']
        else:
            real_readers = readers
        if mode == 'D' and len(real_readers) == 1 and not is_port_fork and (cells or not po_idx):
            r = real_readers[0]
            l = Line(c, (drv, dpin), reader_pin(r))
            b.rline[r] = l
            b.stemline[src] = l
            lines.append(l)
        else:
            if is_port_fork:
                fork = drv
            else:
                fork = Node(c, src)
                l = Line(c, (drv, dpin), fork)
                b.stemline[src] = l
                lines.append(l)
            port_deep = bool((not cells) and po_idx and mode == 'L' and nl.get('pdeep') and not is_port_fork and real_readers)
            if not cells and not port_deep:
                for k in po_idx:
                    b.po[k] = fork
            if mode in ('C', 'L') and real_readers:
                # fork chains, planned first: sub forks [(key, name, parent key)] and reader attachments [(reader, fork key)]
                if mode == 'C':     # stem fork -> two sub forks -> readers (first sub fork gets ~half of the readers)
                    half = max(1, len(real_readers) // 2)
                    groups = [real_readers[:half], real_readers[half:]]
                    subs = [(j, f'{src}~{j}', None) for j, grp in enumerate(groups) if grp]
                    att = [(r, j) for j, grp in enumerate(groups) for r in grp]
                else:               # stem fork -> fork a -> fork b; the first reader hangs on the deepest fork, the second on the middle one
                    subs = [('a', f'{src}~a', None), ('b', f'{src}~a~b', 'a')]
                    att = [(r, ['b', 'a', None][min(j, 2)]) for j, r in enumerate(real_readers)]
                late = bool(nl.get('frev'))     # downstream forks and their fan-out lines are created before the forks and lines that feed them
                sub_node = {None: fork}
                for key, name, _ in (reversed(subs) if late else subs):
                    sub_node[key] = Node(c, name)
                if port_deep:            # bench-style output port at the end of the fork chain (stem fork -> fork -> port fork)
                    for k in po_idx:
                        b.po[k] = sub_node['b']
                def attach():
                    for r, key in att:
                        l = Line(c, sub_node[key], reader_pin(r))
                        b.rline[r] = l
                        lines.append(l)
                if late: attach()
                for key, _, parent in (reversed(subs) if late else subs):
                    lines.append(Line(c, sub_node[parent], sub_node[key]))
                if not late: attach()
            else:
                for r in real_readers:
                    l = Line(c, fork, reader_pin(r))
                    b.rline[r] = l
                    lines.append(l)
        b.siglines[src] = lines
        for l in lines:
            b.line_src[l.index] = src
    # floating nets ------------------------------------------------------------------------------
    if nl.get('flt'):
        shared = None
        for k, g in enumerate(nl['g']):
            n_op = rm.arity(g['f'], g['i'])
            for j in range(n_op):
                if j >= len(g['i']) or g['i'][j] is None:
                    fresh = None
                    if nl['flt'] in (2, 4):
                        if shared is None:
                            shared = fresh = Node(c, 'floatnet')
                        ff = shared
                    else:
                        ff = fresh = Node(c, f'floatnet{k}_{j}')
                    if fresh is not None and nl['flt'] >= 3:       # the net had a driver once: the line was removed again, the fork keeps an empty pin 0
                        tmp = Node(c, f'{fresh.name}_olddriver', 'buf')
                        Line(c, tmp, fresh).remove()
                        tmp.remove()
                    b.flt.append(Line(c, ff, (b.g[k], j)))
                    b.line_src[b.flt[-1].index] = 'zero'         # carries the constant 0
    # ports ------------------------------------------------------------------------------------
    target = [b.pi[int(label[1:])] if label[0] == 'i' else b.po[int(label[1:])] for label in nl['ports']]
    if nl.get('peek') and len(target) > 1:
        # the circuit is looked at while it is still being edited: ports first go in in another order (rotated), the interface is read
        # (s_nodes, look-ups), then the port list is re-ordered in place - node, line and port counts stay the same
        for n in target[1:] + target[:1]:
            c.io_nodes.append(n)
        _ = [n.index for n in c.s_nodes]
        _ = c.stats
        for i, n in enumerate(target):
            c.io_nodes[i] = n
    else:
        for n in target:
            c.io_nodes.append(n)
    if any(n is None for n in c.io_nodes):
        raise HarnessError('builder: unresolved output port')
    if placeholder is not None:
        # edit history: a spare flip-flop (no data pin, no reader: its next state is 0, nothing depends on it) is created last; removing the
        # placeholder moves it to node index 0, in front of every other state element - s_nodes follows the node order
        Node(c, 'zz_spare_ff', 'DFF')
        if nl.get('holdph'):
            b.placeholder = placeholder         # left in place: the caller removes it between two uses of the circuit object
        else:
            placeholder.remove()
    return b


def pack_bp(mv):
    """mv: uint8 array (rows, lanes) of 3-bit codes -> bit-parallel array (rows, 3, ceil(lanes/8)).
    Own implementation of the documented bp format (lane l is bit l%8 of byte l//8, plane p is bit p of the code)."""
    mv = np.asarray(mv, dtype=np.uint8)
    planes = np.stack([(mv >> p) & 1 for p in range(3)], axis=-2)   # rows, 3, lanes
    return np.packbits(planes, axis=-1, bitorder='little')


def unpack_bp(bp, lanes):
    bits = np.unpackbits(np.asarray(bp, dtype=np.uint8), axis=-1, bitorder='little')[..., :lanes]  # rows, 3, lanes
    return bits[..., 0, :] | (bits[..., 1, :] << 1) | (bits[..., 2, :] << 2)


def bits_to_row(v, lanes):
    """bit-vector int -> list of 0/1 per lane"""
    return [(v >> l) & 1 for l in range(lanes)]
