"""Independent reference semantics. Nothing in this file imports kyupy.

* 33 Boolean gate primitives written from their names (bit-vector ints, one bit per lane)
* the abstract 8-valued algebra (documented in kyupy/logic.py's docstrings, re-stated here)
* an evaluator for abstract netlists (2-valued and multi-valued)
"""

# ---------------------------------------------------------------------------------------------
# Boolean gate families. A gate is (family, pins) where pins is a list of operand values;
# an unconnected pin reads 0. Values are Python ints used as bit vectors (one bit per lane), `mask`
# has the bits of all lanes set.

VARIADIC = ('AND', 'NAND', 'OR', 'NOR', 'XOR', 'XNOR')
FIXED = {'BUF': 1, 'INV': 1,
         'AO21': 3, 'OA21': 3, 'AOI21': 3, 'OAI21': 3,
         'AO22': 4, 'OA22': 4, 'AOI22': 4, 'OAI22': 4,
         'AO211': 4, 'OA211': 4, 'AOI211': 4, 'OAI211': 4,
         'MUX21': 3}
FAMILIES = VARIADIC + tuple(FIXED)


def arity(fam, pins):
    """Number of operand pins the primitive has. Variadic families: 2..4, selected by the highest
    connected pin; pins below it that are unconnected read 0."""
    if fam in FIXED:
        return FIXED[fam]
    hi = max([i for i, p in enumerate(pins) if p is not None], default=-1)
    return max(2, hi + 1)


def gate2(fam, v, mask):
    """v: list of ints (already 0 for unconnected pins), length = arity."""
    if fam == 'BUF': return v[0]
    if fam == 'INV': return ~v[0] & mask
    if fam in ('AND', 'NAND'):
        r = mask
        for x in v: r &= x
        return r if fam == 'AND' else ~r & mask
    if fam in ('OR', 'NOR'):
        r = 0
        for x in v: r |= x
        return r if fam == 'OR' else ~r & mask
    if fam in ('XOR', 'XNOR'):
        r = 0
        for x in v: r ^= x
        return r if fam == 'XOR' else ~r & mask
    a, b, c = v[0], v[1], v[2]
    d = v[3] if len(v) > 3 else 0
    if fam == 'AO21': return (a & b) | c
    if fam == 'AOI21': return ~((a & b) | c) & mask
    if fam == 'OA21': return (a | b) & c
    if fam == 'OAI21': return ~((a | b) & c) & mask
    if fam == 'AO22': return (a & b) | (c & d)
    if fam == 'AOI22': return ~((a & b) | (c & d)) & mask
    if fam == 'OA22': return (a | b) & (c | d)
    if fam == 'OAI22': return ~((a | b) & (c | d)) & mask
    if fam == 'AO211': return (a & b) | c | d
    if fam == 'AOI211': return ~((a & b) | c | d) & mask
    if fam == 'OA211': return (a | b) & c & d
    if fam == 'OAI211': return ~((a | b) & c & d) & mask
    if fam == 'MUX21': return (a & ~c & mask) | (b & c)   # pin 2 selects: 0 -> pin 0, 1 -> pin 1
    raise ValueError(fam)


# ---------------------------------------------------------------------------------------------
# Multi-valued algebra. A value is the 3-bit code of logic.py:
#   bit0 final, bit1 initial, bit2 activity;  0b001 = unknown (X), 0b010 = unassigned (-).
# Abstractly: U (unknown/unassigned) or (init, final, activity).

ZERO, UNKNOWN, UNASSIGNED, ONE, PPULSE, RISE, FALL, NPULSE = range(8)
U = 'U'


def dec(code):
    if code in (UNKNOWN, UNASSIGNED):
        return U
    return ((code >> 1) & 1, code & 1, (code >> 2) & 1)


def enc(val):
    if val == U:
        return UNKNOWN
    i, f, a = val
    if i != f:
        a = 1
    return (a << 2) | (i << 1) | f


def mv_not(x):
    if x == U: return U
    return (1 - x[0], 1 - x[1], x[2])


def mv_and(xs):
    if any(x == (0, 0, 0) for x in xs): return (0, 0, 0)      # controlling constant dominates
    if any(x == U for x in xs): return U
    i = f = 1
    a = 0
    for x in xs:
        i &= x[0]; f &= x[1]; a |= x[2]
    return (i, f, a)


def mv_or(xs):
    if any(x == (1, 1, 0) for x in xs): return (1, 1, 0)
    if any(x == U for x in xs): return U
    i = f = a = 0
    for x in xs:
        i |= x[0]; f |= x[1]; a |= x[2]
    return (i, f, a)


def mv_xor(xs):
    if any(x == U for x in xs): return U
    i = f = a = 0
    for x in xs:
        i ^= x[0]; f ^= x[1]; a |= x[2]
    return (i, f, a)


def gate_mv(fam, v):
    """v: list of abstract values (unconnected pins already (0,0,0)), length = arity."""
    if fam == 'BUF': return v[0]
    if fam == 'INV': return mv_not(v[0])
    if fam == 'AND': return mv_and(v)
    if fam == 'NAND': return mv_not(mv_and(v))
    if fam == 'OR': return mv_or(v)
    if fam == 'NOR': return mv_not(mv_or(v))
    if fam == 'XOR': return mv_xor(v)
    if fam == 'XNOR': return mv_not(mv_xor(v))
    a, b, c = v[0], v[1], v[2]
    d = v[3] if len(v) > 3 else (0, 0, 0)
    if fam == 'AO21': return mv_or([mv_and([a, b]), c])
    if fam == 'AOI21': return mv_not(mv_or([mv_and([a, b]), c]))
    if fam == 'OA21': return mv_and([mv_or([a, b]), c])
    if fam == 'OAI21': return mv_not(mv_and([mv_or([a, b]), c]))
    if fam == 'AO22': return mv_or([mv_and([a, b]), mv_and([c, d])])
    if fam == 'AOI22': return mv_not(mv_or([mv_and([a, b]), mv_and([c, d])]))
    if fam == 'OA22': return mv_and([mv_or([a, b]), mv_or([c, d])])
    if fam == 'OAI22': return mv_not(mv_and([mv_or([a, b]), mv_or([c, d])]))
    if fam == 'AO211': return mv_or([mv_and([a, b]), c, d])
    if fam == 'AOI211': return mv_not(mv_or([mv_and([a, b]), c, d]))
    if fam == 'OA211': return mv_and([mv_or([a, b]), c, d])
    if fam == 'OAI211': return mv_not(mv_and([mv_or([a, b]), c, d]))
    if fam == 'MUX21': return mv_or([mv_and([a, mv_not(c)]), mv_and([b, c])])
    raise ValueError(fam)


# ---------------------------------------------------------------------------------------------
# Abstract netlist evaluation.
#   nl = {'pi': n, 'st': [{'t': 'D'|'L', 'd': src|None, ...}], 'g': [{'f': fam, 'i': [src|None]}], 'po': [src]}
#   sources: 'i<k>' primary input k, 's<k>' true output of state element k, 'n<k>' inverted output of
#   flip-flop k, 'g<k>' gate k. Gates only read sources defined before them (combinationally acyclic).

def eval2(nl, pi, st, mask, override=None):
    """pi, st: lists of bit-vector ints. Returns dict src -> bit vector for every signal.
    override: optional dict src -> value forced onto that signal (cut-and-drive)."""
    override = override or {}
    sig = {}
    for k, v in enumerate(pi):
        sig[f'i{k}'] = override.get(f'i{k}', v)
    for k, v in enumerate(st):
        sig[f's{k}'] = override.get(f's{k}', v)
        sig[f'n{k}'] = override.get(f'n{k}', ~v & mask)
    for k, g in enumerate(nl['g']):
        n = arity(g['f'], g['i'])
        v = [(sig[p] if p is not None else 0) for p in (list(g['i']) + [None] * 4)[:n]]
        name = f'g{k}'
        sig[name] = override[name] if name in override else gate2(g['f'], v, mask)
    return sig


def evalmv(nl, pi, st):
    """pi, st: lists of 3-bit codes (one lane). Returns dict src -> abstract value."""
    sig = {}
    for k, v in enumerate(pi):
        sig[f'i{k}'] = dec(v)
    for k, v in enumerate(st):
        sig[f's{k}'] = dec(v)
        sig[f'n{k}'] = mv_not(dec(v))
    for k, g in enumerate(nl['g']):
        n = arity(g['f'], g['i'])
        v = [(sig[p] if p is not None else (0, 0, 0)) for p in (list(g['i']) + [None] * 4)[:n]]
        sig[f'g{k}'] = gate_mv(g['f'], v)
    return sig


def next_state(nl, sig):
    """Value captured at every state element (its data pin; an unconnected data pin is not captured)."""
    return [sig[s['d']] if s['d'] is not None else None for s in nl['st']]


def depth(nl):
    d = {}
    best = 0
    for k, g in enumerate(nl['g']):
        x = 1 + max([d.get(p, 0) for p in g['i'] if p is not None], default=0)
        d[f'g{k}'] = x
        best = max(best, x)
    return best


def readers(nl):
    """src -> list of reader descriptors ('g', k, pin) | ('s', k, pin) | ('o', k)."""
    r = {}
    for k, g in enumerate(nl['g']):
        for pin, p in enumerate(g['i']):
            if p is not None:
                r.setdefault(p, []).append(('g', k, pin))
    for k, s in enumerate(nl['st']):
        if s['d'] is not None:
            r.setdefault(s['d'], []).append(('s', k, 0))
        if s.get('c') is not None:
            r.setdefault(s['c'], []).append(('s', k, 1))
    for k, p in enumerate(nl['po']):
        r.setdefault(p, []).append(('o', k))
    return r


def has_reconvergence(nl):
    """True if some gate has two pins whose transitive fan-in share a multi-reader signal."""
    cone = {}
    rd = readers(nl)
    multi = {s for s, l in rd.items() if len(l) > 1}
    for k, g in enumerate(nl['g']):
        cones = []
        for p in g['i']:
            if p is None:
                continue
            c = set(cone.get(p, ()))
            if p in multi:
                c.add(p)
            cones.append(c)
        allc = set()
        for i, c in enumerate(cones):
            for j in range(i):
                if c & cones[j]:
                    return True
            allc |= c
        cone[f'g{k}'] = allc
    return False
